"""aigmap - AIG edge algebra, structural hashing, technology-mapping matchers and rewrite instantiation kernels (C21, last clause:
"rewriting plus technology mapping leaves the Boolean function of every output and flip-flop input unchanged").
Kani/CBMC. Complete proofs (symbolic edges / node values / refcounts / roles / patterns, constant loop bounds) for graph.rs AigEdge + mk_and/mk_or/mk_xor/mk_mux,
techmap.rs match_mux_pair / match_xor_pair / pick_xor_polarity / pick_or_polarity / inner_of / try_match / compute_refcount / compute_polarity_refs,
rewrite.rs resolve_pat_edge / instantiate_pattern / try_library_rewrite (library + canonicaliser + cut table abstracted by their contracts) / merge_cuts;
bounded stand-ins (labelled) for eval_tt / compute_cut_tt on graphs with <= 3 ANDs over <= 4 cut leaves.
The module is behind the cargo feature `aig`; items are cut from the source text, the feature gate is ignored (as in unit npn)."""
import re
from vp.core import KaniJob
from vp.kani_run import Harness

G = "crates/synthesizer/src/aig/graph.rs"
T = "crates/synthesizer/src/aig/techmap.rs"
R = "crates/synthesizer/src/aig/rewrite.rs"
N = "crates/synthesizer/src/aig/npn4.rs"
IR = "crates/synthesizer/src/ir.rs"

# E1: the `use` lines of the real files are dropped; these fixed preludes bind the same names to the extracted items / stand-ins
USE_GRAPH = "use crate::vpmap::HashMap;\nuse crate::vpvec::Vec;\nuse crate::ir::NetId;\n"
# E1v: in module techmap `Vec` / `vec!` are the array-backed stand-in (CompoundMatch.inputs / inner_ands, the refcount tables)
USE_TECHMAP = ("use crate::graph::{AigEdge, AigModule, AigNode};\nuse crate::ir::{CellKind, NetId};\nuse crate::vpvec::Vec;\n"
               "macro_rules! vec {\n    () => { crate::vpvec::Vec::new() };\n    ($e:expr; $n:expr) => { crate::vpvec::Vec::from_elem($e, $n) };\n"
               "    ($($x:expr),+ $(,)?) => { crate::vpvec::Vec::from_list([$($x),+]) };\n}\n")
USE_REWRITE = ("use crate::vpmap::HashMap;\nuse crate::graph::{AigEdge, AigModule, AigNode};\n"
               "use crate::npn4::{self, AigPattern, PatEdge, Tt4, VAR_TT};\n")
# in module rewrite_lib the name `npn4` is bound to the oracle stand-ins (npn_canonical / lookup_canonical answer with symbolic values that
# satisfy unit npn's postconditions); compute_cut_tt is the stand-in defined in the harness section of that module
USE_REWRITE_LIB = ("use crate::graph::{AigEdge, AigNode};\nuse crate::valaig::AigModule;\nuse crate::npn4::{AigPattern, PatEdge, Tt4, VAR_TT};\n"
                   "use crate::oracle as npn4;\n")

TRUSTED = {
    r"kani::assume\(": "harness input domains and hypotheses only: node index of a drawn edge within the small graph (or < 2^31 in the edge-algebra harness); "
                       "value consistency `equal nodes carry equal values, node 0 is false` for the four operand edges of the pair matchers; tag < 5 when drawing a NodeRole; "
                       "perm index < 24; pattern well-formedness (gate k references nodes < 4+k, output < 4+n) - what unit npn proves for library patterns; cut leaves strictly ascending "
                       "(enumerate_cuts / merge_cuts produce sorted leaf lists; merge_cuts' half of that is proved here); cone sizes < 2^20 (no u32 overflow in merge_cuts); "
                       "the hypothesis of each completeness statement (`the operands are a genuine AND(S,D1)/AND(!S,D0) pair`, ...); "
                       "ASSUMED FROM UNIT npn in try_library_rewrite_*: (canonical, t) is any pair with t.apply(tt) == canonical and t in ALL_PERMS x u8 x bool (npn_canonical's Verus contract), "
                       "the looked-up pattern is any well-formed pattern with <= 3 gates and pat.tt() == canonical (library lemma of unit npn); both are evaluated with the REAL "
                       "NpnTransform::apply / AigPattern::tt text; in the bounded eval_tt harnesses: the cut covers the cone (no primary input below the root outside the leaf set)",
}

STANDINS = [
    "harness stand-in: vpvec::Vec (+ a shadowing vec! macro) - an array-backed Vec bound to the name `Vec` inside modules graph and techmap (AigModule.nodes / sinks, CompoundMatch, refcount "
    "tables): same observable behaviour for new/push/len/index/iter up to a fixed capacity, pushing beyond the capacity fails the harness; std's heap Vec with symbolic growth blows up CBMC",
    "harness stand-in (module rewrite_lib only): valaig::AigModule implements exactly mk_and's proved contract (append a node whose value is the AND of the operand values, under one symbolic "
    "assignment) instead of the hash-consing mk_and; the real mk_and is proved against that contract in mk_and_value_frame_and_sharing. So the try_library_rewrite harnesses see mk_and through "
    "its contract (modular), while the instantiate_pattern harnesses run through the real mk_and",
    "harness stand-in: vpmap::HashMap for std::collections::HashMap inside the extracted AigModule (hash_cons, net_edge) and compute_cut_tt/eval_tt (leaf_tt, memo): "
    "finite-map semantics as an association list (new, with_capacity, get, insert); std's hashbrown + RandomState is not ingestible by CBMC",
    "harness stand-in: crate::oracle::{npn_canonical, lookup_canonical} and rewrite_lib::compute_cut_tt answer with harness-chosen symbolic values (module rewrite_lib only): "
    "npn_canonical/lookup_canonical are under contract in unit npn (t.apply(tt) == canonical; pattern.tt() == canonical, well-formed, <= MAX_ANDS gates); compute_cut_tt's contract "
    "(bit m of the table == value of the root when cut leaf i carries bit i of m) is the bounded harness compute_cut_tt_is_cone_function_* of this unit. "
    "OnceLock/HashMap plumbing of library()/perm_table() is not ingested",
    "cell_fn(kind, pins): the Boolean function of each CellKind, written in units/aigmap/harness.rs from the doc comments of `enum CellKind` in crates/synthesizer/src/ir.rs "
    "(Ao21 `(A & B) | C`, Aoi21, Oa21 `(A | B) & C`, Oai21, Ao31, Aoi31, Ao22, Aoi22, Oai22, Mux2 `inputs = [sel, d_when_sel_0, d_when_sel_1]`) and, pin order included, from "
    "aig/convert.rs::aigify::lower_cell (Mux2 => mk_mux(inputs[0], inputs[1], inputs[2]); mk_mux(s,d0,d1) = `s ? d1 : d0`), cross-checked against graph.rs mk_or/mk_xor/mk_mux in "
    "harness mk_or_xor_mux_values; CellKind::arity is extracted and checked against the number of emitted inputs",
    "module layout of the generated crate: crate::{ir, graph, npn4, techmap, rewrite, rewrite_lib} hold the extracted text (real paths crate::ir, crate::aig::{graph,npn4,techmap,rewrite}); "
    "harness modules are child modules so that private items (AigEdge.0, CompoundMatch fields, Cut, try_match ..) are visible; units/npn/spec.rs (value_at, npn_value_at, "
    "pattern_value_at, wf_pattern) is shared with unit npn so that both units speak about the same definitions",
    "not covered (by inspection only): the driver loops of techmap.rs::aig_to_cells_techmap (role assignment in ascending node order, `resolve` materialising inverters, sink wiring, "
    "compute_live), rewrite.rs::{rewrite, compact, enumerate_cuts} (topological rebuild through new_edge, dedup/truncate of cut lists), aig/convert.rs (aigify, aig_to_cells). "
    "The local contracts proved here are the induction steps of those loops: see contract_clauses['composition']",
]


def expand(text):
    text = re.sub(r"#\[vp_proof\((\d+)\)\]", r"#[cfg_attr(kani, kani::proof)]\n    #[cfg_attr(kani, kani::unwind(\1))]", text)
    return re.sub(r"#\[vp_bounded\((\d+)\)\]", r"#[cfg_attr(kani, kani::proof)]\n    #[cfg_attr(kani, kani::unwind(\1))]", text)


def sections(raw):
    """units/aigmap/harness.rs is split at `//@@ section <name>` lines; section <name> is spliced at the end of module <name> (child modules see private items)"""
    out, cur = {}, None
    for line in raw.splitlines(keepends=True):
        m = re.match(r"//@@ section (\w+)", line)
        if m:
            cur = m.group(1)
            out[cur] = ""
        elif cur is not None:
            out[cur] += line
    return out


# (kind, name, impl) plans; "impl{" / "}" open and close an impl block written by the unit
GRAPH = [("struct", "AigEdge", None), ("impl{", "AigEdge", None), ("const", "CONST0", "AigEdge"), ("const", "CONST1", "AigEdge"), ("fn", "new", "AigEdge"),
         ("fn", "node", "AigEdge"), ("fn", "is_negated", "AigEdge"), ("fn", "negate", "AigEdge"), ("fn", "negate_if", "AigEdge"), ("fn", "raw", "AigEdge"), ("}", None, None),
         ("enum", "AigNode", None), ("struct", "AigSink", None), ("struct", "AigModule", None), ("impl", "Default for AigModule", None),
         ("impl{", "AigModule", None), ("fn", "new", "AigModule"), ("fn", "mk_and", "AigModule"), ("fn", "mk_or", "AigModule"), ("fn", "mk_xor", "AigModule"),
         ("fn", "mk_mux", "AigModule"), ("fn", "add_sink", "AigModule"), ("}", None, None)]
NPN = [("type", "Tt4", None), ("const", "VAR_TT", None), ("const", "MAX_ANDS", None), ("const", "ALL_PERMS", None), ("fn", "perm_tt", None), ("fn", "flip_inputs", None),
       ("struct", "NpnTransform", None), ("impl{", "NpnTransform", None), ("fn", "apply", "NpnTransform"), ("}", None, None), ("struct", "PatEdge", None),
       ("struct", "AigPattern", None), ("impl{", "AigPattern", None), ("fn", "size", "AigPattern"), ("fn", "eval", "AigPattern"), ("fn", "tt", "AigPattern"), ("}", None, None)]
TECHMAP = [("enum", "NodeRole", None), ("struct", "CompoundMatch", None), ("fn", "compute_refcount", None), ("fn", "compute_polarity_refs", None), ("struct", "InnerAnd", None),
           ("fn", "inner_of", None), ("fn", "try_match", None), ("fn", "pick_xor_polarity", None), ("fn", "pick_or_polarity", None), ("fn", "match_xor_pair", None),
           ("fn", "match_mux_pair", None)]
REWRITE = [("const", "MAX_CUT_LEAVES", None), ("struct", "Cut", None), ("fn", "merge_cuts", None), ("fn", "compute_cut_tt", None), ("fn", "eval_tt", None),
           ("fn", "instantiate_pattern", None), ("fn", "resolve_pat_edge", None)]
REWRITE_LIB = [("struct", "Cut", None), ("fn", "try_library_rewrite", None), ("fn", "instantiate_pattern", None), ("fn", "resolve_pat_edge", None)]
IRP = [("type", "NetId", None), ("enum", "CellKind", None), ("impl{", "CellKind", None), ("fn", "arity", "CellKind"), ("}", None, None)]


def cut(ctx, rel, plan, items):
    s = ctx.src(rel)
    out = []
    for kind, name, impl in plan:
        if kind == "impl{":
            out.append("impl %s {" % name)
        elif kind == "}":
            out.append("}")
        else:
            it = s.item(kind, name, impl=impl)
            items.append(it)
            out.append(it.render())
    return "\n".join(out) + "\n"


FN_OF = [("edge_", "AigEdge::{new,node,is_negated,negate,negate_if,raw}"), ("mk_and", "AigModule::mk_and"), ("mk_or_xor_mux", "AigModule::{mk_or,mk_xor,mk_mux}"),
         ("canary_mk_and", "AigModule::mk_and"), ("mux_pair", "match_mux_pair"), ("xor_pair", "match_xor_pair"), ("canary_mux", "match_mux_pair"), ("canary_xor", "match_xor_pair"),
         ("pick_xor", "pick_xor_polarity"), ("pick_or", "pick_or_polarity"), ("refcount", "compute_refcount"), ("try_match", "try_match"), ("canary_try_match", "try_match"),
         ("inner_of", "inner_of"), ("resolve_pat_edge", "resolve_pat_edge"), ("instantiate", "instantiate_pattern"), ("canary_instantiate", "instantiate_pattern"),
         ("try_library_rewrite", "try_library_rewrite"), ("canary_try_library", "try_library_rewrite"), ("merge_cuts", "merge_cuts"), ("canary_merge", "merge_cuts"),
         ("compute_cut_tt", "compute_cut_tt"), ("canary_compute_cut_tt", "compute_cut_tt"), ("cell_fn", "CellKind::arity")]
BOUNDS = {
    "compute_cut_tt_is_cone_function_2_ands": "root cone of 2 symbolic AND nodes over {const, 4 inputs}, symbolic cut of <= 3 leaves covering the cone; HashMap = association-list stand-in",
}


def build(ctx, res):
    items = []
    raw = ctx.unit_file("aigmap", "harness.rs")
    sec = sections(expand(raw))
    mods = [
        ("ir", "", cut(ctx, IR, IRP, items)),
        ("graph", USE_GRAPH, cut(ctx, G, GRAPH, items)),
        ("npn4", "", cut(ctx, N, NPN, items)),
        ("techmap", USE_TECHMAP, cut(ctx, T, TECHMAP, items)),
        ("rewrite", USE_REWRITE, cut(ctx, R, REWRITE, items)),
        ("rewrite_lib", USE_REWRITE_LIB, cut(ctx, R, REWRITE_LIB, items)),
    ]
    lib = sec["top"]
    for name, use, text in mods:
        lib += "pub mod %s {\n%s%s%s}\n" % (name, use, text, sec.get(name, ""))
    # unit npn's independent definitions (value_at, npn_value_at, wf_pattern, pattern_value_at); its `use crate::{..}` is served by re-exports in section top
    lib += ctx.unit_file("npn", "spec.rs") + sec.get("tail", "")

    hs = []
    mod_of = {}
    cur = None
    for line in raw.splitlines():
        m = re.match(r"\s*pub mod (hx_\w+) \{", line)
        s = re.match(r"//@@ section (\w+)", line)
        if s:
            cur = s.group(1)
        if m:
            mod_of[m.group(1)] = cur
    for hm, body in re.findall(r"(?ms)^pub mod (hx_\w+) \{\n(.*?)^\}", raw):
        for kind, n in re.findall(r"#\[vp_(proof|bounded)\(\d+\)\]\s*pub fn (\w+)", body):
            fn = next((v for k, v in FN_OF if n.startswith(k)), n)
            k = "canary" if n.startswith("canary_") else ("bounded" if kind == "bounded" else "proof")
            hs.append(Harness("%s::%s::%s" % (mod_of[hm], hm, n), kind=k, fn=fn, bound=BOUNDS.get(n)))
    for t in STANDINS:
        ent = "aigmap: " + t
        if ent not in res.trusted:
            res.trusted.append(ent)
    res.clauses.update(CLAUSES)
    res.samples.append({"obligation": "kani:aigmap:try_match_emits_cell_with_root_function",
                        "contract": "try_match(..) == Some(m) ==> cell_fn(m.kind, values of m.inputs) ^ m.output_is_negated == value(root), m.inputs.len() == m.kind.arity()"})
    res.samples.append({"obligation": "kani:aigmap:try_library_rewrite_computes_cut_function_3_gates",
                        "contract": "try_library_rewrite(..) == Some(e) ==> value(e) == tt(value(new_edge[leaf_0]), .., padded with leaf_0) for every assignment; older nodes of new_aig untouched"})
    return [KaniJob("aigmap", lib, hs, deps={}, items=items, trusted=TRUSTED, jobs=3, timeout=2400, per_harness_timeout=900,
                    extra=["--no-assertion-reach-checks"])]


CLAUSES = {
    "semantics": "an assignment gives every AIG node a Boolean; value(edge) = value(node) ^ is_negated; value(And{f0,f1}) = value(f0) & value(f1); node 0 is constant false",
    "AigEdge": "new(n,neg) for n < 2^31: node() == n, is_negated() == neg, raw() == 2n+neg; for every raw edge: negate keeps node and flips polarity, is an involution; "
               "negate_if(c) == if c {negate()} else {self}; CONST0 = (node 0,+), CONST1 = (node 0,-) = CONST0.negate()",
    "AigModule::mk_and": "over every module reachable by earlier mk_and calls on {const, 3 inputs}: value(result) == value(a) & value(b) for every assignment; older nodes unchanged; "
                         "at most one node appended; every And fanin points to a lower index; same operands (either order) give the same edge without growth (structural hashing)",
    "AigModule::{mk_or,mk_xor,mk_mux}": "value == a|b, a^b, if s {d1} else {d0} (the definitions cell_fn uses for Or2/Xor2/Mux2 pin order)",
    "match_mux_pair": "for ANY four edges (arbitrary node ids < 2^31, any sharing, constants included) and every assignment: Some((s,d0,d1)) ==> s positive && "
                      "(a0&a1)|(b0&b1) == if s {d1} else {d0}, each returned edge is on an operand node; completeness: a genuine AND(S,D1) / AND(!S,D0) pair with D0 != D1, in any operand order "
                      "and either inner order, is matched",
    "match_xor_pair": "Some((x,y,t)) ==> x,y positive, x.node != y.node, !((a0&a1)|(b0&b1)) == (x^y) if t, == !(x^y) otherwise; completeness: forms crossed / same in every operand order "
                      "are matched with {x,y} the two nodes and t as documented",
    "pick_xor_polarity / pick_or_polarity": "for all ref counts: cell_fn(kind, inputs) ^ output_is_negated == the top AND's positive value (x^y resp. !(x^y) by top_is_xor; f0 & f1), "
                                            "kind in {Xor2,Xnor2} resp. {Or2,Nor2}, inner_ands == [ia, ib] resp. []",
    "inner_of": "Some(i) <=> edge node != root && refcount == 1 && role Simple && node is And; i carries that node, its fanins and the edge polarity",
    "compute_refcount / compute_polarity_refs": "on a symbolic 8-node AIG + 2 sinks: rc[n] == #fanin references + #sink references (independent count), pos[n] + neg[n] == rc[n], split by edge polarity",
    "try_match": "symbolic AIG {const, 4 opaque nodes, 2 candidate inner ANDs with symbolic fanins, root AND with symbolic fanins}, symbolic refcount / pos_refs / neg_refs / roles: "
                 "Some(m) ==> m.inputs.len() == arity(m.kind) && cell_fn(m.kind, values(m.inputs)) ^ m.output_is_negated == value(root) for every assignment; "
                 "every absorbed node is a distinct-from-root And fanin of root with refcount 1 and role Simple; with the REAL compute_refcount of the graph: absorbed nodes are pairwise distinct and "
                 "no emitted input edge points at an absorbed node or at root (so a Consumed node is never asked for a net)",
    "resolve_pat_edge": "== node_edges[pe.0].negate_if(pe.1)",
    "instantiate_pattern": "for every well-formed pattern with 0..=3 gates, every four leaf edges into a module {const, 4 inputs, 1 earlier AND}: value(result) == pattern_value_at(pat, leaf values) "
                           "for every assignment (unit npn: == bit of pat.tt()); older nodes unchanged; real mk_and incl. constant folding and hash-cons hits",
    "try_library_rewrite": "one symbolic cut (2..=4 ascending leaves, symbolic cone size), symbolic new_edge, tt / (canonical,t) / pattern abstracted by the contracts of compute_cut_tt / npn_canonical / "
                           "lookup_canonical: Some(e) ==> value(e) == value_at(tt, z), z_i = value(new_edge[leaf_i]) (i >= #leaves: z_0, as the code pads) for every assignment; older nodes of new_aig unchanged; "
                           "two-cut harness: whichever cut wins, the edge computes the common function",
    "merge_cuts": "strictly ascending inputs with <= 4 leaves each: Some(c) <=> |union| <= 4; then c.leaves is the strictly ascending union and cone_size = a + b + 1",
    "compute_cut_tt / eval_tt": "bounded: Some(tt) ==> for all 16 minterms m: bit m == value of root when leaf i carries bit i of m (Const = 0); None <=> > 4 leaves or the trivial cut",
    "composition": "rewrite: invariant value_new(new_edge[n]) == value_old(n) for processed n; step And: either mk_and of the mapped fanins (mk_and contract + negate_if) or try_library_rewrite "
                   "(its contract + compute_cut_tt's); instantiate/mk_and never change older nodes, so the invariant survives. techmap: invariant net(pos_net[n]) carries value(n) / neg_net its complement; "
                   "step Simple: And2 over resolved fanins; step Compound: try_match contract (cell function ^ output_is_negated == value(root)) and absorbed nodes are needed by nobody else. "
                   "The loops themselves are read, not proved (see trusted_base)",
}
