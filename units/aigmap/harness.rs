// Unit `aigmap` (C21, last clause). This file is split by unit.py at the `//@@ section <name>` lines: section `top` opens the generated crate,
// section <m> is spliced at the END of module <m>, after the items cut from /repo, so that the harness modules are child modules and see private items.
//   crate::ir          NetId, CellKind + arity                                   (crates/synthesizer/src/ir.rs)
//   crate::graph       AigEdge + methods, AigNode, AigSink, AigModule + Default, new, mk_and, mk_or, mk_xor, mk_mux, add_sink   (aig/graph.rs)
//   crate::npn4        Tt4, VAR_TT, MAX_ANDS, ALL_PERMS, perm_tt, flip_inputs, NpnTransform + apply, PatEdge, AigPattern + size/eval/tt   (aig/npn4.rs)
//   crate::techmap     NodeRole, CompoundMatch, compute_refcount, compute_polarity_refs, InnerAnd, inner_of, try_match, pick_*_polarity, match_*_pair   (aig/techmap.rs)
//   crate::rewrite     MAX_CUT_LEAVES, Cut, merge_cuts, compute_cut_tt, eval_tt, instantiate_pattern, resolve_pat_edge   (aig/rewrite.rs)
//   crate::rewrite_lib Cut, try_library_rewrite, instantiate_pattern, resolve_pat_edge with compute_cut_tt / npn4::{npn_canonical, lookup_canonical} bound to oracles
//@@ section top
pub use crate::npn4::{AigPattern, PatEdge, Tt4};

/// stand-in for std::collections::HashMap: a finite map as an association list (new, with_capacity, get, insert) in a fixed array of CAP slots
/// (no heap: CBMC's array theory on growing Vec buffers does not finish); exceeding CAP fails the harness (never silently drops an entry)
pub mod vpmap {
    pub const CAP: usize = 4;
    pub struct HashMap<K, V> {
        pub slots: [Option<(K, V)>; CAP],
        pub len: usize,
    }
    impl<K: PartialEq + Copy, V: Copy> HashMap<K, V> {
        pub fn new() -> Self {
            Self { slots: [None; CAP], len: 0 }
        }
        pub fn with_capacity(_n: usize) -> Self {
            Self::new()
        }
        fn hit(&self, i: usize, k: &K) -> bool {
            i < self.len && matches!(&self.slots[i], Some((kk, _)) if *kk == *k)
        }
        /// straight-line (CAP = 4 probes): a loop here would force a larger unwinding bound on harnesses that must keep the bound small (recursive eval_tt)
        fn find(&self, k: &K) -> Option<usize> {
            if self.hit(0, k) {
                return Some(0);
            }
            if self.hit(1, k) {
                return Some(1);
            }
            if self.hit(2, k) {
                return Some(2);
            }
            if self.hit(3, k) {
                return Some(3);
            }
            None
        }
        pub fn get(&self, k: &K) -> Option<&V> {
            match self.find(k) {
                Some(i) => match &self.slots[i] {
                    Some((_, v)) => Some(v),
                    None => None,
                },
                None => None,
            }
        }
        pub fn insert(&mut self, k: K, v: V) -> Option<V> {
            match self.find(&k) {
                Some(i) => {
                    let old = self.slots[i];
                    self.slots[i] = Some((k, v));
                    old.map(|x| x.1)
                }
                None => {
                    assert!(self.len < CAP, "vpmap::HashMap stand-in: capacity exceeded");
                    self.slots[self.len] = Some((k, v));
                    self.len += 1;
                    None
                }
            }
        }
    }
}

/// stand-in for std Vec inside the extracted AigModule (nodes, sinks): array-backed, fixed capacity, no heap. new / with_capacity / push / len / is_empty /
/// Index / IndexMut / iter / `for x in &v`. A push beyond VCAP fails the harness. (std Vec growth on input-dependent paths makes CBMC's memory model explode:
/// 5.4 M variables for three mk_and calls.)
pub mod vpvec {
    pub const VCAP: usize = 9;
    #[derive(Clone, Debug)]
    pub struct Vec<T> {
        buf: [Option<T>; VCAP],
        len: usize,
    }
    impl<T> Vec<T> {
        pub fn new() -> Self {
            Self { buf: [const { None }; VCAP], len: 0 }
        }
        pub fn with_capacity(_n: usize) -> Self {
            Self::new()
        }
        pub fn push(&mut self, x: T) {
            assert!(self.len < VCAP, "vpvec::Vec stand-in: capacity exceeded");
            self.buf[self.len] = Some(x);
            self.len += 1;
        }
        pub fn len(&self) -> usize {
            self.len
        }
        pub fn is_empty(&self) -> bool {
            self.len == 0
        }
        pub fn iter(&self) -> Iter<'_, T> {
            Iter { v: self, i: 0 }
        }
        /// `vec![a, b, c]`
        pub fn from_list<const N: usize>(a: [T; N]) -> Self {
            let mut v = Self::new();
            for x in a {
                v.push(x);
            }
            v
        }
    }
    impl<T: Clone> Vec<T> {
        /// `vec![e; n]`
        pub fn from_elem(e: T, n: usize) -> Self {
            let mut v = Self::new();
            let mut i = 0;
            while i < n {
                v.push(e.clone());
                i += 1;
            }
            v
        }
    }
    impl<T> std::ops::Index<usize> for Vec<T> {
        type Output = T;
        fn index(&self, i: usize) -> &T {
            assert!(i < self.len, "index out of bounds");
            self.buf[i].as_ref().unwrap()
        }
    }
    impl<T> std::ops::IndexMut<usize> for Vec<T> {
        fn index_mut(&mut self, i: usize) -> &mut T {
            assert!(i < self.len, "index out of bounds");
            self.buf[i].as_mut().unwrap()
        }
    }
    pub struct Iter<'a, T> {
        v: &'a Vec<T>,
        i: usize,
    }
    impl<'a, T> Iterator for Iter<'a, T> {
        type Item = &'a T;
        fn next(&mut self) -> Option<&'a T> {
            if self.i < self.v.len {
                self.i += 1;
                self.v.buf[self.i - 1].as_ref()
            } else {
                None
            }
        }
    }
    impl<'a, T> IntoIterator for &'a Vec<T> {
        type Item = &'a T;
        type IntoIter = Iter<'a, T>;
        fn into_iter(self) -> Iter<'a, T> {
            self.iter()
        }
    }
}

/// the semantics the contracts are stated against
pub mod sem {
    use crate::graph::{AigEdge, AigModule, AigNode};
    use crate::ir::CellKind;

    pub const MAXN: usize = 9;
    /// values of all nodes of a small AIG under one assignment: node i of kind Input takes inp[i], Const is false,
    /// And{f0,f1} is value(f0) & value(f1) (fanins must point to lower indices: checked)
    pub fn node_values(aig: &AigModule, inp: &[bool; MAXN]) -> [bool; MAXN] {
        let mut v = [false; MAXN];
        let n = aig.nodes.len();
        assert!(n <= MAXN, "harness graph larger than MAXN");
        let mut i = 0;
        while i < n {
            v[i] = match aig.nodes[i] {
                AigNode::Const => false,
                AigNode::Input { .. } => inp[i],
                AigNode::And { fanin0, fanin1 } => {
                    assert!((fanin0.node() as usize) < i && (fanin1.node() as usize) < i, "And fanin does not point to a lower node");
                    edge_val(&v, fanin0) & edge_val(&v, fanin1)
                }
            };
            i += 1;
        }
        v
    }
    /// value(edge) = value(node) ^ is_negated
    pub fn edge_val(v: &[bool; MAXN], e: AigEdge) -> bool {
        v[e.node() as usize] ^ e.is_negated()
    }
    /// a symbolic edge onto one of the nodes 0..=max_node
    pub fn any_edge(max_node: u8) -> AigEdge {
        let n: u8 = kani::any();
        let neg: bool = kani::any();
        kani::assume(n <= max_node);
        AigEdge::new(n as u32, neg)
    }
    pub fn same_node(a: &AigNode, b: &AigNode) -> bool {
        match (a, b) {
            (AigNode::Const, AigNode::Const) => true,
            (AigNode::Input { origin: x }, AigNode::Input { origin: y }) => x == y,
            (AigNode::And { fanin0: a0, fanin1: a1 }, AigNode::And { fanin0: b0, fanin1: b1 }) => a0 == b0 && a1 == b1,
            _ => false,
        }
    }
    /// {const, k primary inputs}
    pub fn base_module(k: u32) -> AigModule {
        let mut m = AigModule::new();
        let mut i = 0;
        while i < k {
            m.nodes.push(AigNode::Input { origin: 100 + i });
            i += 1;
        }
        m
    }
    /// The Boolean function of a library cell over its pins, from the doc comments of `enum CellKind` (ir.rs) and, pin order included,
    /// from aig/convert.rs::aigify::lower_cell: Mux2 inputs = [sel, d_when_sel_0, d_when_sel_1]; Ao21 (A&B)|C; Oa21 (A|B)&C; Ao31 (A&B&C)|D;
    /// Ao22 (A&B)|(C&D); Oai22 !((A|B)&(C|D)); the ..i.. kinds are the complements.
    pub fn cell_fn(kind: CellKind, v: &[bool]) -> bool {
        match kind {
            CellKind::Buf => v[0],
            CellKind::Not => !v[0],
            CellKind::And2 => v[0] & v[1],
            CellKind::Or2 => v[0] | v[1],
            CellKind::Nand2 => !(v[0] & v[1]),
            CellKind::Nor2 => !(v[0] | v[1]),
            CellKind::Xor2 => v[0] ^ v[1],
            CellKind::Xnor2 => !(v[0] ^ v[1]),
            CellKind::And3 => v[0] & v[1] & v[2],
            CellKind::Or3 => v[0] | v[1] | v[2],
            CellKind::Nand3 => !(v[0] & v[1] & v[2]),
            CellKind::Nor3 => !(v[0] | v[1] | v[2]),
            CellKind::Ao21 => (v[0] & v[1]) | v[2],
            CellKind::Aoi21 => !((v[0] & v[1]) | v[2]),
            CellKind::Oa21 => (v[0] | v[1]) & v[2],
            CellKind::Oai21 => !((v[0] | v[1]) & v[2]),
            CellKind::Ao31 => (v[0] & v[1] & v[2]) | v[3],
            CellKind::Aoi31 => !((v[0] & v[1] & v[2]) | v[3]),
            CellKind::Ao22 => (v[0] & v[1]) | (v[2] & v[3]),
            CellKind::Aoi22 => !((v[0] & v[1]) | (v[2] & v[3])),
            CellKind::Oai22 => !((v[0] | v[1]) & (v[2] | v[3])),
            CellKind::Mux2 => {
                if v[0] {
                    v[2]
                } else {
                    v[1]
                }
            }
        }
    }
}

//@@ section graph
pub mod hx_graph {
    use super::*;
    use crate::sem::*;

    /// node / polarity round trip for every node index < 2^31
    #[vp_proof(11)]
    pub fn edge_new_round_trip() {
        let n: u32 = kani::any();
        let neg: bool = kani::any();
        kani::assume(n < (1u32 << 31));
        let e = AigEdge::new(n, neg);
        assert!(e.node() == n, "AigEdge::new(n, neg).node() != n");
        assert!(e.is_negated() == neg, "AigEdge::new(n, neg).is_negated() != neg");
        assert!(e.raw() == 2 * n + neg as u32, "raw() is not 2*node + polarity");
    }
    /// negate flips only the polarity; negate_if(c) == if c {negate()} else {self}; constants; for every raw edge
    #[vp_proof(11)]
    pub fn edge_negate_algebra() {
        let raw: u32 = kani::any();
        let c: bool = kani::any();
        let e = AigEdge(raw);
        assert!(e.raw() == raw);
        assert!(e == AigEdge::new(e.node(), e.is_negated()), "an edge is not determined by (node, polarity)");
        let n = e.negate();
        assert!(n.node() == e.node() && n.is_negated() == !e.is_negated(), "negate does not flip exactly the polarity");
        assert!(n.negate() == e, "negate is not an involution");
        assert!(e.negate_if(c) == if c { e.negate() } else { e }, "negate_if(c) is not: negate when c, identity otherwise");
        assert!(e.negate_if(c).node() == e.node() && e.negate_if(c).is_negated() == (e.is_negated() ^ c));
        assert!(AigEdge::CONST0.node() == 0 && !AigEdge::CONST0.is_negated(), "CONST0 is not (node 0, +)");
        assert!(AigEdge::CONST1.node() == 0 && AigEdge::CONST1.is_negated(), "CONST1 is not (node 0, -)");
        assert!(AigEdge::CONST1 == AigEdge::CONST0.negate());
    }

    fn snapshot(m: &AigModule) -> (usize, [Option<(AigEdge, AigEdge)>; MAXN]) {
        let mut s = [None; MAXN];
        let mut i = 0;
        while i < m.nodes.len() && i < MAXN {
            if let AigNode::And { fanin0, fanin1 } = m.nodes[i] {
                s[i] = Some((fanin0, fanin1));
            }
            i += 1;
        }
        (m.nodes.len(), s)
    }
    fn unchanged_prefix(m: &AigModule, s: &(usize, [Option<(AigEdge, AigEdge)>; MAXN])) -> bool {
        let now = snapshot(m);
        let mut ok = now.0 >= s.0;
        let mut i = 0;
        while i < s.0 && i < MAXN {
            ok &= now.1[i] == s.1[i];
            i += 1;
        }
        ok
    }
    fn mk_and_step(m: &mut AigModule, inp: &[bool; MAXN]) -> (AigEdge, AigEdge, AigEdge) {
        let hi = (m.nodes.len() - 1) as u8;
        let (a, b) = (any_edge(hi), any_edge(hi));
        let before = snapshot(m);
        let v0 = node_values(m, inp);
        let r = m.mk_and(a, b);
        assert!(unchanged_prefix(m, &before), "mk_and changed an existing node");
        assert!(m.nodes.len() <= before.0 + 1, "mk_and appended more than one node");
        assert!((r.node() as usize) < m.nodes.len(), "mk_and returned an edge to a missing node");
        let v = node_values(m, inp);
        assert!(edge_val(&v, r) == (edge_val(&v0, a) & edge_val(&v0, b)), "value(mk_and(a,b)) != value(a) & value(b)");
        (a, b, r)
    }
    /// three successive mk_and calls with symbolic operands over everything built so far, starting from {const, 3 inputs}
    #[vp_proof(11)]
    pub fn mk_and_value_frame_and_sharing() {
        let mut m = base_module(3);
        let inp: [bool; MAXN] = kani::any();
        let (a1, b1, r1) = mk_and_step(&mut m, &inp);
        let n1 = m.nodes.len();
        let (a2, b2, r2) = mk_and_step(&mut m, &inp);
        if (a2 == a1 && b2 == b1) || (a2 == b1 && b2 == a1) {
            assert!(r2 == r1 && m.nodes.len() == n1, "structural hashing: the same AND was built twice");
        }
        let _ = mk_and_step(&mut m, &inp);
    }
    /// mk_or / mk_xor / mk_mux compute a|b, a^b, s?d1:d0 (these fix the pin order used by cell_fn for Or2 / Xor2 / Mux2)
    #[vp_proof(11)]
    pub fn mk_or_xor_mux_values() {
        let inp: [bool; MAXN] = kani::any();
        let (a, b, c) = (any_edge(3), any_edge(3), any_edge(3));
        let mut m = base_module(3);
        let v0 = node_values(&m, &inp);
        let (va, vb, vc) = (edge_val(&v0, a), edge_val(&v0, b), edge_val(&v0, c));
        let which: u8 = kani::any();
        if which == 0 {
            let r = m.mk_or(a, b);
            assert!(edge_val(&node_values(&m, &inp), r) == (va | vb), "mk_or");
            assert!(cell_fn(crate::ir::CellKind::Or2, &[va, vb]) == (va | vb));
        } else if which == 1 {
            let r = m.mk_xor(a, b);
            assert!(edge_val(&node_values(&m, &inp), r) == (va ^ vb), "mk_xor");
            assert!(cell_fn(crate::ir::CellKind::Xor2, &[va, vb]) == (va ^ vb));
        } else {
            let r = m.mk_mux(a, b, c);
            assert!(edge_val(&node_values(&m, &inp), r) == (if va { vc } else { vb }), "mk_mux(s,d0,d1) != s ? d1 : d0");
            assert!(cell_fn(crate::ir::CellKind::Mux2, &[va, vb, vc]) == (if va { vc } else { vb }));
        }
    }
    /// canary: the mk_and harness reaches a state with a freshly built node whose value is true (must FAIL)
    #[vp_proof(11)]
    pub fn canary_mk_and_builds_nodes() {
        let mut m = base_module(3);
        let inp: [bool; MAXN] = kani::any();
        let (_, _, r) = mk_and_step(&mut m, &inp);
        let v = node_values(&m, &inp);
        assert!(!(m.nodes.len() == 5 && edge_val(&v, r)));
    }
}

//@@ section techmap
pub mod hx_techmap {
    use super::*;
    use crate::sem::*;

    /// four operand edges on ARBITRARY node ids (< 2^31), with one Boolean per edge's node: equal nodes carry equal values, node 0 is false.
    /// Covers every sharing pattern of the operands, constants included.
    struct Ops {
        e: [AigEdge; 4],
        nv: [bool; 4],
    }
    fn any_ops() -> Ops {
        let nodes: [u32; 4] = kani::any();
        let negs: [bool; 4] = kani::any();
        let nv: [bool; 4] = kani::any();
        let mut i = 0;
        while i < 4 {
            kani::assume(nodes[i] < (1u32 << 31));
            kani::assume(nodes[i] != 0 || !nv[i]);
            let mut j = 0;
            while j < i {
                kani::assume(nodes[i] != nodes[j] || nv[i] == nv[j]);
                j += 1;
            }
            i += 1;
        }
        Ops { e: [AigEdge::new(nodes[0], negs[0]), AigEdge::new(nodes[1], negs[1]), AigEdge::new(nodes[2], negs[2]), AigEdge::new(nodes[3], negs[3])], nv }
    }
    impl Ops {
        fn val(&self, i: usize) -> bool {
            self.nv[i] ^ self.e[i].is_negated()
        }
        /// value of a returned edge: it must sit on one of the operand nodes
        fn val_of(&self, x: AigEdge) -> bool {
            let mut i = 0;
            while i < 4 {
                if self.e[i].node() == x.node() {
                    return self.nv[i] ^ x.is_negated();
                }
                i += 1;
            }
            panic!("matcher returned an edge on a node that is not an operand node");
        }
        /// (a0 & a1) | (b0 & b1): the OR of the two inner ANDs
        fn or_of_ands(&self) -> bool {
            (self.val(0) & self.val(1)) | (self.val(2) & self.val(3))
        }
    }

    /// match_mux_pair(a0,a1,b0,b1) == Some((s,d0,d1)) ==> s is a positive edge and (a0&a1)|(b0&b1) == if s {d1} else {d0}, for every assignment
    #[vp_proof(11)]
    pub fn mux_pair_sound() {
        let o = any_ops();
        if let Some((s, d0, d1)) = match_mux_pair(o.e[0], o.e[1], o.e[2], o.e[3]) {
            assert!(!s.is_negated(), "match_mux_pair: select is not a positive edge");
            let (vs, v0, v1) = (o.val_of(s), o.val_of(d0), o.val_of(d1));
            assert!(o.or_of_ands() == (if vs { v1 } else { v0 }), "match_mux_pair: (a0&a1)|(b0&b1) != s ? d1 : d0 (data arms swapped?)");
        }
    }
    /// completeness (doc comment: "is this AND(S, D1) and AND(!S, D0) for some S, D0, D1?"): a genuine pair, D0 != D1, any operand order, either inner first
    #[vp_proof(11)]
    pub fn mux_pair_complete() {
        let o = any_ops();
        let (s, d1, d0) = (o.e[0], o.e[1], o.e[3]);
        kani::assume(o.e[2] == s.negate());
        kani::assume(d0 != d1);
        let swap_a: bool = kani::any();
        let swap_b: bool = kani::any();
        let swap_ab: bool = kani::any();
        let (a0, a1) = if swap_a { (d1, s) } else { (s, d1) };
        let (b0, b1) = if swap_b { (d0, s.negate()) } else { (s.negate(), d0) };
        let r = if swap_ab { match_mux_pair(b0, b1, a0, a1) } else { match_mux_pair(a0, a1, b0, b1) };
        assert!(r.is_some(), "match_mux_pair misses a genuine AND(S,D1) / AND(!S,D0) pair");
        // when S is the only candidate select (no other complementary pair), the answer is exactly (S+, D0, D1) up to S's polarity
        if d0.node() != d1.node() && d0.node() != s.node() && d1.node() != s.node() {
            let (rs, r0, r1) = r.unwrap();
            let pos = if s.is_negated() { s.negate() } else { s };
            let (e0, e1) = if s.is_negated() { (d1, d0) } else { (d0, d1) };
            assert!(rs == pos && r0 == e0 && r1 == e1, "match_mux_pair: not (S, D0, D1) for the unique decomposition");
        }
    }
    /// match_xor_pair == Some((x,y,t)) ==> x,y positive edges on distinct nodes, top AND value !((a0&a1)|(b0&b1)) == x^y iff t, else == !(x^y)
    #[vp_proof(11)]
    pub fn xor_pair_sound() {
        let o = any_ops();
        if let Some((x, y, t)) = match_xor_pair(o.e[0], o.e[1], o.e[2], o.e[3]) {
            assert!(!x.is_negated() && !y.is_negated(), "match_xor_pair: X, Y are not positive edges");
            assert!(x.node() != y.node(), "match_xor_pair: X and Y on the same node");
            let top = !o.or_of_ands();
            let xy = o.val_of(x) ^ o.val_of(y);
            assert!(top == (if t { xy } else { !xy }), "match_xor_pair: top_is_xor does not describe the top AND's positive value");
        }
    }
    /// completeness: forms "crossed" AND(x,!y),AND(!x,y) and "same" AND(x,y),AND(!x,!y) on two distinct nodes, every operand order
    #[vp_proof(11)]
    pub fn xor_pair_complete() {
        let nx: u32 = kani::any();
        let ny: u32 = kani::any();
        kani::assume(nx < (1u32 << 31) && ny < (1u32 << 31) && nx != ny);
        let same: bool = kani::any();
        let (x, y) = (AigEdge::new(nx, false), AigEdge::new(ny, false));
        let (p0, p1, q0, q1) = if same { (x, y, x.negate(), y.negate()) } else { (x, y.negate(), x.negate(), y) };
        let swap_a: bool = kani::any();
        let swap_b: bool = kani::any();
        let swap_ab: bool = kani::any();
        let (a0, a1) = if swap_a { (p1, p0) } else { (p0, p1) };
        let (b0, b1) = if swap_b { (q1, q0) } else { (q0, q1) };
        let r = if swap_ab { match_xor_pair(b0, b1, a0, a1) } else { match_xor_pair(a0, a1, b0, b1) };
        assert!(r.is_some(), "match_xor_pair misses a canonical XOR form");
        let (rx, ry, t) = r.unwrap();
        assert!((rx == x && ry == y) || (rx == y && ry == x), "match_xor_pair: X, Y are not the two positive variables");
        assert!(t == same, "match_xor_pair: top_is_xor must be true exactly for form `same`");
    }
    /// canaries: the operand assumptions admit a matching mux / xor (must FAIL)
    #[vp_proof(11)]
    pub fn canary_mux_pair_matches() {
        let o = any_ops();
        assert!(match_mux_pair(o.e[0], o.e[1], o.e[2], o.e[3]).is_none());
    }
    #[vp_proof(11)]
    pub fn canary_xor_pair_matches() {
        let o = any_ops();
        assert!(match_xor_pair(o.e[0], o.e[1], o.e[2], o.e[3]).is_none());
    }

    fn vals_of(v: &[bool; MAXN], es: &Vec<AigEdge>) -> [bool; 4] {
        let mut r = [false; 4];
        let mut i = 0;
        while i < es.len() && i < 4 {
            r[i] = edge_val(v, es[i]);
            i += 1;
        }
        r
    }
    /// cell function of a CompoundMatch over node values (number of inputs == arity checked)
    fn match_value(m: &CompoundMatch, v: &[bool; MAXN]) -> bool {
        assert!(m.inputs.len() == m.kind.arity(), "CompoundMatch: number of inputs != arity of the cell kind");
        let pins = vals_of(v, &m.inputs);
        cell_fn(m.kind, &pins[..m.inputs.len()]) ^ m.output_is_negated
    }
    fn any_refs() -> [u32; MAXN] {
        kani::any()
    }

    /// pick_xor_polarity: for all ref counts the emitted cell, negated iff output_is_negated, is the top AND's positive value
    #[vp_proof(11)]
    pub fn pick_xor_polarity_keeps_function() {
        let (x, y) = (any_edge(7), any_edge(7));
        let top_is_xor: bool = kani::any();
        let (pos, neg) = (any_refs(), any_refs());
        let root: u8 = kani::any();
        kani::assume((root as usize) < MAXN);
        let (ia, ib): (u32, u32) = (kani::any(), kani::any());
        let m = pick_xor_polarity(root as u32, x, y, ia, ib, top_is_xor, &pos, &neg);
        let v: [bool; MAXN] = kani::any();
        let xy = edge_val(&v, x) ^ edge_val(&v, y);
        assert!(matches!(m.kind, CellKind::Xor2 | CellKind::Xnor2));
        assert!(match_value(&m, &v) == (if top_is_xor { xy } else { !xy }), "pick_xor_polarity: cell ^ output_is_negated != top AND value");
        assert!(m.inner_ands.len() == 2 && m.inner_ands[0] == ia && m.inner_ands[1] == ib);
    }
    /// pick_or_polarity: top = AND(f0, f1); the emitted Or2/Nor2 over the negated fanins, negated iff output_is_negated, is f0 & f1
    #[vp_proof(11)]
    pub fn pick_or_polarity_keeps_function() {
        let (f0, f1) = (any_edge(7), any_edge(7));
        let (pos, neg) = (any_refs(), any_refs());
        let root: u8 = kani::any();
        kani::assume((root as usize) < MAXN);
        let m = pick_or_polarity(root as u32, f0, f1, &pos, &neg);
        let v: [bool; MAXN] = kani::any();
        assert!(matches!(m.kind, CellKind::Or2 | CellKind::Nor2));
        assert!(match_value(&m, &v) == (edge_val(&v, f0) & edge_val(&v, f1)), "pick_or_polarity: cell ^ output_is_negated != f0 & f1");
        assert!(m.inner_ands.is_empty());
    }
    /// cell_fn's arity agrees with CellKind::arity for the kinds try_match can emit (guards the pin tables against a new kind)
    #[vp_proof(11)]
    pub fn cell_fn_arity_table() {
        assert!(CellKind::Mux2.arity() == 3 && CellKind::Xor2.arity() == 2 && CellKind::Xnor2.arity() == 2 && CellKind::Or2.arity() == 2 && CellKind::Nor2.arity() == 2);
        assert!(CellKind::And3.arity() == 3 && CellKind::Oa21.arity() == 3 && CellKind::Aoi21.arity() == 3 && CellKind::Aoi22.arity() == 4);
    }

    fn any_role() -> NodeRole {
        let t: u8 = kani::any();
        kani::assume(t < 5);
        match t {
            0 => NodeRole::Undecided,
            1 => NodeRole::Dead,
            2 => NodeRole::Simple,
            3 => NodeRole::Compound(CompoundMatch { kind: CellKind::And2, inputs: vec![], inner_ands: vec![], output_is_negated: false }),
            _ => NodeRole::Consumed,
        }
    }
    /// {0 const, 1..=4 opaque nodes, 5 = And over 0..=4, 6 = And over 0..=5, 7 = root And over 0..=6}: try_match only looks at root's fanins and,
    /// if they are ANDs, at their fanins, so this is every local shape (leaf/inner roles of the fanins are decided by the symbolic edges, refcounts and roles)
    const ROOT: u32 = 7;
    fn any_graph() -> AigModule {
        let mut m = base_module(4);
        let (a0, a1) = (any_edge(4), any_edge(4));
        m.nodes.push(AigNode::And { fanin0: a0, fanin1: a1 });
        let (b0, b1) = (any_edge(5), any_edge(5));
        m.nodes.push(AigNode::And { fanin0: b0, fanin1: b1 });
        let (r0, r1) = (any_edge(6), any_edge(6));
        m.nodes.push(AigNode::And { fanin0: r0, fanin1: r1 });
        m
    }
    fn root_fanins(m: &AigModule) -> (AigEdge, AigEdge) {
        match m.nodes[ROOT as usize] {
            AigNode::And { fanin0, fanin1 } => (fanin0, fanin1),
            _ => unreachable!(),
        }
    }
    fn any_roles() -> [NodeRole; 8] {
        [any_role(), any_role(), any_role(), any_role(), any_role(), any_role(), any_role(), any_role()]
    }
    fn arr8(v: &Vec<u32>) -> [u32; MAXN] {
        let mut a = [0u32; MAXN];
        let mut i = 0;
        while i < v.len() && i < MAXN {
            a[i] = v[i];
            i += 1;
        }
        a
    }
    fn check_inner(aig: &AigModule, m: &CompoundMatch, f0: AigEdge, f1: AigEdge, rc: &[u32], role: &[NodeRole]) {
        let mut k = 0;
        while k < m.inner_ands.len() {
            let n = m.inner_ands[k];
            assert!(n == f0.node() || n == f1.node(), "absorbed node is not a fanin of root");
            assert!(n != ROOT && matches!(aig.nodes[n as usize], AigNode::And { .. }), "absorbed node is not an AND below root");
            assert!(rc[n as usize] == 1, "absorbed node has other consumers (refcount != 1)");
            assert!(matches!(role[n as usize], NodeRole::Simple), "absorbed node is not currently Simple");
            k += 1;
        }
        assert!(m.inner_ands.len() <= 2);
    }
    /// try_match == Some(m) ==> cell_fn(m.kind, m.inputs) ^ m.output_is_negated == value(root) for EVERY assignment, refcounts, polarity refs and roles;
    /// absorbed nodes are And fanins of root with refcount 1 and role Simple
    #[vp_proof(11)]
    pub fn try_match_emits_cell_with_root_function() {
        let aig = any_graph();
        let (f0, f1) = root_fanins(&aig);
        let (rc, pos, neg) = (any_refs(), any_refs(), any_refs());
        let role = any_roles();
        let inp: [bool; MAXN] = kani::any();
        let v = node_values(&aig, &inp);
        if let Some(m) = try_match(&aig, ROOT, f0, f1, &rc[..8], &pos[..8], &neg[..8], &role) {
            assert!(match_value(&m, &v) == v[ROOT as usize], "try_match: emitted cell (with output_is_negated) does not compute the root AND");
            check_inner(&aig, &m, f0, f1, &rc, &role);
        }
    }
    /// with the graph's REAL reference counts (compute_refcount / compute_polarity_refs over the graph + two symbolic sinks): absorbed nodes are distinct and
    /// no emitted input points at an absorbed node or at root; a single-reference Simple AND fanin with both root edges negated is always absorbed (doc: 4-input family)
    #[vp_proof(11)]
    pub fn try_match_absorbs_only_private_nodes() {
        let mut aig = any_graph();
        let (f0, f1) = root_fanins(&aig);
        aig.add_sink(200, any_edge(7));
        aig.add_sink(201, any_edge(7));
        let rc = arr8(&compute_refcount(&aig));
        let (pos, neg) = compute_polarity_refs(&aig);
        let (pos, neg) = (arr8(&pos), arr8(&neg));
        let role = any_roles();
        if let Some(m) = try_match(&aig, ROOT, f0, f1, &rc[..8], &pos[..8], &neg[..8], &role) {
            check_inner(&aig, &m, f0, f1, &rc, &role);
            if m.inner_ands.len() == 2 {
                assert!(m.inner_ands[0] != m.inner_ands[1], "the same node absorbed twice");
            }
            let mut i = 0;
            while i < m.inputs.len() {
                let n = m.inputs[i].node();
                assert!(n != ROOT, "emitted input points at root");
                let mut k = 0;
                while k < m.inner_ands.len() {
                    assert!(n != m.inner_ands[k], "emitted input points at an absorbed (Consumed) node");
                    k += 1;
                }
                i += 1;
            }
        }
    }
    /// compute_refcount counts fanin + sink references; compute_polarity_refs splits the same count by edge polarity
    #[vp_proof(11)]
    pub fn refcount_counts_references() {
        let mut aig = any_graph();
        let (s0, s1) = (any_edge(7), any_edge(7));
        aig.add_sink(200, s0);
        aig.add_sink(201, s1);
        let rc = compute_refcount(&aig);
        let (pos, neg) = compute_polarity_refs(&aig);
        assert!(rc.len() == 8 && pos.len() == 8 && neg.len() == 8);
        let n: u8 = kani::any();
        kani::assume(n < 8);
        let (mut p, mut q) = (0u32, 0u32);
        let mut count = |e: AigEdge| {
            if e.node() == n as u32 {
                if e.is_negated() {
                    q += 1;
                } else {
                    p += 1;
                }
            }
        };
        let mut i = 5;
        while i < 8 {
            if let AigNode::And { fanin0, fanin1 } = aig.nodes[i] {
                count(fanin0);
                count(fanin1);
            }
            i += 1;
        }
        count(s0);
        count(s1);
        assert!(pos[n as usize] == p && neg[n as usize] == q, "compute_polarity_refs: wrong per-polarity count");
        assert!(rc[n as usize] == p + q, "compute_refcount: wrong count");
    }
    /// inner_of == Some <=> (node != root, refcount 1, role Simple, And node), and it reports that node's fanins and the edge polarity
    #[vp_proof(11)]
    pub fn inner_of_is_the_absorbable_test() {
        let aig = any_graph();
        let e = any_edge(7);
        let rc = any_refs();
        let role = any_roles();
        let n = e.node() as usize;
        let expect = e.node() != ROOT && rc[n] == 1 && matches!(role[n], NodeRole::Simple) && matches!(aig.nodes[n], AigNode::And { .. });
        match inner_of(&aig, ROOT, e, &rc[..8], &role) {
            Some(i) => {
                assert!(expect, "inner_of absorbed a node that is shared / not Simple / not an AND");
                assert!(i.node == e.node() && i.edge_negated == e.is_negated());
                if let AigNode::And { fanin0, fanin1 } = aig.nodes[n] {
                    assert!(i.f0 == fanin0 && i.f1 == fanin1);
                }
            }
            None => assert!(!expect, "inner_of refused an absorbable node"),
        }
    }
    /// canary: every template family is reachable in the try_match harness (must FAIL): a Mux2 match exists
    #[vp_proof(11)]
    pub fn canary_try_match_reaches_mux() {
        let aig = any_graph();
        let (f0, f1) = root_fanins(&aig);
        let (rc, pos, neg) = (any_refs(), any_refs(), any_refs());
        let role = any_roles();
        if let Some(m) = try_match(&aig, ROOT, f0, f1, &rc[..8], &pos[..8], &neg[..8], &role) {
            assert!(!matches!(m.kind, CellKind::Mux2));
        }
    }
}

//@@ section npn4
/// symbolic transforms / patterns (ALL_PERMS is private to npn4.rs)
pub mod hx_npn4 {
    use super::*;
    /// symbolic transform of the NPN group: a row of ALL_PERMS, any u8 mask, any output polarity (what npn_canonical returns: unit npn, in_group)
    pub fn any_transform() -> NpnTransform {
        let pi: u8 = kani::any();
        kani::assume(pi < 24);
        let neg: u8 = kani::any();
        let o: bool = kani::any();
        NpnTransform { perm: ALL_PERMS[pi as usize], in_neg: neg, out_neg: o }
    }
    /// symbolic well-formed pattern with exactly n gates (same drawing scheme as unit npn)
    pub fn any_pattern(n: u8) -> AigPattern {
        let nodes: [u8; 6] = kani::any();
        let negs: [bool; 6] = kani::any();
        let out: u8 = kani::any();
        let out_neg: bool = kani::any();
        let mut ands = Vec::with_capacity(3);
        let mut k = 0u8;
        while k < n {
            let (a, b) = (nodes[2 * k as usize], nodes[2 * k as usize + 1]);
            kani::assume(a < 4 + k && b < 4 + k);
            ands.push((PatEdge(a, negs[2 * k as usize]), PatEdge(b, negs[2 * k as usize + 1])));
            k += 1;
        }
        kani::assume(out < 4 + n);
        AigPattern { ands, output: PatEdge(out, out_neg) }
    }
    /// symbolic well-formed pattern with a SYMBOLIC number n <= 3 (= MAX_ANDS) of gates: three gates are pushed, then the Vec is truncated to n
    /// (no allocation depends on n)
    pub fn any_pattern_upto3() -> AigPattern {
        let n: u8 = kani::any();
        kani::assume(n <= 3);
        let nodes: [u8; 6] = kani::any();
        let negs: [bool; 6] = kani::any();
        let out: u8 = kani::any();
        let out_neg: bool = kani::any();
        let mut ands = Vec::with_capacity(3);
        let mut k = 0u8;
        while k < 3 {
            let (a, b) = (nodes[2 * k as usize], nodes[2 * k as usize + 1]);
            kani::assume(k >= n || (a < 4 + k && b < 4 + k));
            ands.push((PatEdge(a & 7, negs[2 * k as usize]), PatEdge(b & 7, negs[2 * k as usize + 1])));
            k += 1;
        }
        ands.truncate(n as usize);
        kani::assume(out < 4 + n);
        AigPattern { ands, output: PatEdge(out, out_neg) }
    }
}

//@@ section rewrite
pub mod hx_rewrite {
    use super::*;
    use crate::npn4::hx_npn4::any_pattern;
    use crate::sem::*;
    use crate::spec::{pattern_value_at, value_at, wf_pattern};

    /// resolve_pat_edge(node_edges, (k, neg)) == node_edges[k].negate_if(neg)
    #[vp_proof(11)]
    pub fn resolve_pat_edge_selects_and_negates() {
        let raws: [u32; 7] = kani::any();
        let mut es = Vec::with_capacity(7);
        let mut i = 0;
        while i < 7 {
            kani::assume(raws[i] < (1u32 << 31));
            es.push(AigEdge::new(raws[i] >> 1, raws[i] & 1 == 1));
            i += 1;
        }
        let k: u8 = kani::any();
        let neg: bool = kani::any();
        kani::assume(k < 7);
        let r = resolve_pat_edge(&es, PatEdge(k, neg));
        assert!(r.node() == es[k as usize].node() && r.is_negated() == (es[k as usize].is_negated() ^ neg), "resolve_pat_edge: wrong node or polarity");
    }

    /// {const, 4 inputs, one earlier AND built by mk_and over symbolic operands}: the destination AIG while rewriting
    pub fn any_dest() -> AigModule {
        let mut m = base_module(4);
        let (a, b) = (any_edge(4), any_edge(4));
        let _ = m.mk_and(a, b);
        m
    }
    pub fn frame(m: &AigModule) -> (usize, [Option<(AigEdge, AigEdge)>; MAXN]) {
        let mut s = [None; MAXN];
        let mut i = 0;
        while i < m.nodes.len() && i < MAXN {
            if let AigNode::And { fanin0, fanin1 } = m.nodes[i] {
                s[i] = Some((fanin0, fanin1));
            }
            i += 1;
        }
        (m.nodes.len(), s)
    }
    pub fn frame_kept(m: &AigModule, s: &(usize, [Option<(AigEdge, AigEdge)>; MAXN])) -> bool {
        let now = frame(m);
        let mut ok = now.0 >= s.0;
        let mut i = 0;
        while i < s.0 && i < MAXN {
            ok &= now.1[i] == s.1[i];
            i += 1;
        }
        ok
    }
    fn instantiate(n: u8, canary: bool) {
        let pat = any_pattern(n);
        assert!(wf_pattern(&pat) && pat.size() == n as usize);
        let mut m = any_dest();
        let hi = (m.nodes.len() - 1) as u8;
        let var_edges = [any_edge(hi), any_edge(hi), any_edge(hi), any_edge(hi)];
        let inp: [bool; MAXN] = kani::any();
        let v0 = node_values(&m, &inp);
        let x = [edge_val(&v0, var_edges[0]), edge_val(&v0, var_edges[1]), edge_val(&v0, var_edges[2]), edge_val(&v0, var_edges[3])];
        let before = frame(&m);
        let out = instantiate_pattern(&mut m, &pat, &var_edges);
        if canary {
            assert!(m.nodes.len() != before.0 + 3, "canary: three fresh nodes are reachable");
            return;
        }
        assert!(frame_kept(&m, &before), "instantiate_pattern changed an existing node");
        assert!(m.nodes.len() <= before.0 + n as usize);
        let v = node_values(&m, &inp);
        assert!(edge_val(&v, out) == pattern_value_at(&pat, x), "instantiate_pattern: value of the built edge != pattern evaluated on the leaf values");
    }
    /// for every well-formed pattern with n gates, every four leaf edges, every assignment: the instantiated edge computes the pattern
    #[vp_proof(11)]
    pub fn instantiate_pattern_computes_pattern_0_1_gates() {
        instantiate(0, false);
        instantiate(1, false);
    }
    #[vp_proof(11)]
    pub fn instantiate_pattern_computes_pattern_2_gates() {
        instantiate(2, false);
    }
    #[vp_proof(11)]
    pub fn instantiate_pattern_computes_pattern_3_gates() {
        instantiate(3, false);
    }
    #[vp_proof(11)]
    pub fn canary_instantiate_builds_three_nodes() {
        instantiate(3, true);
    }

    /// strictly ascending leaf list of symbolic length <= 4 (four pushes, then truncate: no allocation depends on the length)
    fn any_cut(max_node: u32) -> Cut {
        let n: u8 = kani::any();
        let l: [u32; 4] = kani::any();
        let cs: u32 = kani::any();
        kani::assume(n <= 4 && cs < (1 << 20));
        let mut leaves = Vec::with_capacity(4);
        let mut i = 0usize;
        while i < 4 {
            kani::assume(i >= n as usize || (l[i] <= max_node && (i == 0 || l[i - 1] < l[i])));
            leaves.push(l[i]);
            i += 1;
        }
        leaves.truncate(n as usize);
        Cut { leaves, cone_size: cs }
    }
    fn has(c: &Cut, x: u32) -> bool {
        let mut i = 0;
        let mut f = false;
        while i < c.leaves.len() {
            f |= c.leaves[i] == x;
            i += 1;
        }
        f
    }
    /// merge_cuts on strictly ascending cuts (<= 4 leaves each, arbitrary u32 node ids): Some <=> |union| <= 4, then the strictly ascending union, cone = a + b + 1
    #[vp_proof(11)]
    pub fn merge_cuts_is_sorted_union() {
        let (a, b) = (any_cut(u32::MAX), any_cut(u32::MAX));
        let mut common = 0;
        let mut i = 0;
        while i < a.leaves.len() {
            if has(&b, a.leaves[i]) {
                common += 1;
            }
            i += 1;
        }
        let union = a.leaves.len() + b.leaves.len() - common;
        match merge_cuts(&a, &b) {
            Some(c) => {
                assert!(union <= 4, "merge_cuts returned a cut although the union has more than 4 leaves");
                assert!(c.leaves.len() == union, "merge_cuts: wrong number of leaves");
                assert!(c.cone_size == a.cone_size + b.cone_size + 1);
                let mut k = 0;
                while k < c.leaves.len() {
                    assert!(k == 0 || c.leaves[k - 1] < c.leaves[k], "merge_cuts: result not strictly ascending");
                    assert!(has(&a, c.leaves[k]) || has(&b, c.leaves[k]), "merge_cuts: leaf from nowhere");
                    k += 1;
                }
                let x: u32 = kani::any();
                assert!(has(&c, x) == (has(&a, x) || has(&b, x)), "merge_cuts: result is not the union");
            }
            None => assert!(union > 4, "merge_cuts dropped a union with <= 4 leaves"),
        }
    }
    #[vp_proof(11)]
    pub fn canary_merge_cuts_overflows() {
        let (a, b) = (any_cut(u32::MAX), any_cut(u32::MAX));
        assert!(merge_cuts(&a, &b).is_some());
    }

    fn leaf_pos(cut: &Cut, x: usize) -> Option<usize> {
        let mut r = None;
        let mut k = 0;
        while k < cut.leaves.len() {
            if cut.leaves[k] as usize == x {
                r = Some(k);
            }
            k += 1;
        }
        r
    }
    /// reference evaluation of the cone for one minterm: leaf i carries bit i of m, Const and non-leaf inputs 0 (written without long loops: the unwinding
    /// bound of these harnesses also bounds eval_tt's recursion depth, and CBMC unrolls the binary recursion 2^bound times)
    fn cone_value(aig: &AigModule, cut: &Cut, root: u32, m: u8) -> bool {
        let mut v = [false; MAXN];
        let n = aig.nodes.len();
        let mut step = |i: usize| {
            if i < n {
                v[i] = match leaf_pos(cut, i) {
                    Some(k) => (m >> k) & 1 == 1,
                    None => match aig.nodes[i] {
                        AigNode::And { fanin0, fanin1 } => edge_val(&v, fanin0) & edge_val(&v, fanin1),
                        _ => false,
                    },
                };
            }
        };
        step(0);
        step(1);
        step(2);
        step(3);
        step(4);
        step(5);
        step(6);
        step(7);
        v[root as usize]
    }
    /// the cut covers the cone: walking down from root, every path stops at a leaf or at the constant (no stray primary input)
    fn covered(aig: &AigModule, cut: &Cut, root: u32) -> bool {
        let mut need = [false; MAXN];
        need[root as usize] = true;
        let mut ok = true;
        let n = aig.nodes.len();
        let mut step = |i: usize| {
            if i < n && need[i] && leaf_pos(cut, i).is_none() {
                match aig.nodes[i] {
                    AigNode::And { fanin0, fanin1 } => {
                        need[fanin0.node() as usize] = true;
                        need[fanin1.node() as usize] = true;
                    }
                    AigNode::Input { .. } => ok = false,
                    AigNode::Const => {}
                }
            }
        };
        step(7);
        step(6);
        step(5);
        step(4);
        step(3);
        step(2);
        step(1);
        step(0);
        ok
    }
    /// {const, 4 inputs} + two AND nodes with symbolic fanins (any lower node, any polarity), root = the second AND, symbolic cut (<= 3 leaves: two ANDs
    /// have at most three) covering the cone. The unwinding bound of these harnesses is 4 and nothing here loops more than 3 times: CBMC unrolls eval_tt's binary
    /// recursion to the bound whatever the graph (2^bound activations); the real depth is 3 (root, inner AND, leaf) and the unwinding assertion confirms it.
    fn cut_tt(canary: bool) {
        let mut aig = AigModule::new();
        aig.nodes.push(AigNode::Input { origin: 100 });
        aig.nodes.push(AigNode::Input { origin: 101 });
        aig.nodes.push(AigNode::Input { origin: 102 });
        aig.nodes.push(AigNode::Input { origin: 103 });
        aig.nodes.push(AigNode::And { fanin0: any_edge(4), fanin1: any_edge(4) });
        aig.nodes.push(AigNode::And { fanin0: any_edge(5), fanin1: any_edge(5) });
        let root = 6u32;
        let (n, l0, l1, l2): (u8, u32, u32, u32) = (kani::any(), kani::any(), kani::any(), kani::any());
        kani::assume(n <= 3 && l0 <= root && l1 <= root && l2 <= root && (n < 2 || l0 < l1) && (n < 3 || l1 < l2));
        let mut leaves = Vec::with_capacity(3);
        leaves.push(l0);
        leaves.push(l1);
        leaves.push(l2);
        leaves.truncate(n as usize);
        let cut = Cut { leaves, cone_size: 2 };
        kani::assume(covered(&aig, &cut, root));
        let r = compute_cut_tt(&aig, root, &cut);
        let trivial = cut.leaves.len() == 1 && cut.leaves[0] == root;
        assert!(r.is_none() == trivial, "compute_cut_tt: None exactly for the trivial cut (<= 4 leaves)");
        if let Some(tt) = r {
            if canary {
                assert!(tt != 0x1010, "canary: a three-leaf cone is reachable");
                return;
            }
            let m: u8 = kani::any();
            kani::assume(m < 16);
            assert!(((tt >> m) & 1 == 1) == cone_value(&aig, &cut, root, m), "compute_cut_tt: bit m != value of the cone on minterm m");
        }
    }
    /// bounded: truth table of a root over its cut leaves equals graph evaluation on all 16 leaf assignments
    #[vp_bounded(4)]
    pub fn compute_cut_tt_is_cone_function_2_ands() {
        cut_tt(false);
    }
    // three symbolic ANDs / four leaves verify as well (2.4 M variables, ~5 min of CaDiCaL): left out of the unit for its wall-time budget
    #[vp_bounded(4)]
    pub fn canary_compute_cut_tt_reaches_three_leaves() {
        cut_tt(true);
    }
}

//@@ section rewrite_lib
/// stand-in: answers with the table the harness chose for this call (contract: harness compute_cut_tt_is_cone_function_*)
fn compute_cut_tt(_aig: &AigModule, _root: u32, _cut: &Cut) -> Option<Tt4> {
    crate::oracle::next_cut_tt()
}
pub mod hx_rewrite_lib {
    use super::*;
    use crate::npn4::hx_npn4::{any_pattern, any_transform};
    use crate::npn4::NpnTransform;
    use crate::oracle;
    use crate::sem::any_edge;
    use crate::spec::{npn_value_at, pattern_value_at, value_at, wf_pattern};
    use crate::valaig::VN;

    /// one cut of the root with everything try_library_rewrite learns about it
    struct CutCase {
        leaves: [u32; 5],
        nl: usize,
        cone_size: u32,
        tt: Tt4,
        t: NpnTransform,
        canonical: Tt4,
        pat: AigPattern,
    }
    /// nl in 0..=5 strictly ascending leaves over old nodes 0..=5, a symbolic cone size, ANY table tt for the cut, t ANY transform of the group with
    /// canonical = t.apply(tt) (real apply: npn_canonical's contract), pattern ANY well-formed pattern with `gates` gates and pat.tt() == canonical
    /// (library lemma of unit npn; real AigPattern::tt).
    /// `gates` is concrete per harness (0..=3 = MAX_ANDS all covered): AigPattern::eval / instantiate_pattern allocate Vecs of that size, symbolic sizes blow up CBMC's heap model
    fn any_case(slot: usize, gates: u8, in_library: bool, fixed_nl: Option<u8>) -> CutCase {
        let nl: u8 = match fixed_nl {
            Some(n) => n,
            None => kani::any(),
        };
        let leaves: [u32; 5] = kani::any();
        let cone_size: u32 = kani::any();
        kani::assume(nl <= 5);
        let mut i = 0usize;
        while i < 5 {
            kani::assume(leaves[i] <= 5 && (i == 0 || i >= nl as usize || leaves[i - 1] < leaves[i]));
            i += 1;
        }
        let tt: Tt4 = kani::any();
        let t = any_transform();
        let canonical = t.apply(tt);
        let pat = any_pattern(gates);
        kani::assume(pat.tt() == canonical);
        assert!(wf_pattern(&pat));
        let tt_known: bool = kani::any();
        oracle::set(slot, if tt_known { Some(tt) } else { None }, canonical, t, &pat, in_library);
        CutCase { leaves, nl: nl as usize, cone_size, tt, t, canonical, pat }
    }
    fn cut_of(c: &CutCase) -> Cut {
        let mut leaves = Vec::with_capacity(5);
        let mut i = 0;
        while i < 5 {
            leaves.push(c.leaves[i]);
            i += 1;
        }
        leaves.truncate(c.nl);
        Cut { leaves, cone_size: c.cone_size }
    }
    /// the new AIG while rewriting: 6 existing nodes with symbolic values (node 0 = constant false), and the map old node -> new edge for old nodes 0..=5
    fn any_dest() -> (AigModule, [Option<AigEdge>; 6]) {
        // ten node values without a loop (the unwinding bound of these harnesses is 7: every loop over a symbolic length is unrolled to the bound)
        let b: u16 = kani::any();
        let vals: [bool; VN] = [false, b & 2 != 0, b & 4 != 0, b & 8 != 0, b & 16 != 0, b & 32 != 0, b & 64 != 0, b & 128 != 0, b & 256 != 0, b & 512 != 0];
        let ne = [Some(any_edge(5)), Some(any_edge(5)), Some(any_edge(5)), Some(any_edge(5)), Some(any_edge(5)), Some(any_edge(5))];
        (AigModule::with_values(vals, 6), ne)
    }
    fn frame_kept(m: &AigModule, before: &[bool; VN]) -> bool {
        let mut ok = m.n >= 6;
        let mut i = 0;
        while i < 6 {
            ok &= m.vals[i] == before[i];
            i += 1;
        }
        ok
    }
    /// values the new AIG gives to the mapped cut leaves (padding = leaf 0, as the code pads)
    fn leaf_values(c: &CutCase, ne: &[Option<AigEdge>; 6], m: &AigModule) -> [bool; 4] {
        let mut z = [false; 4];
        let mut i = 0;
        while i < 4 {
            let k = if i < c.nl { i } else { 0 };
            z[i] = m.value(ne[c.leaves[k] as usize].unwrap());
            i += 1;
        }
        z
    }
    fn minterm(x: [bool; 4]) -> u8 {
        (x[0] as u8) | ((x[1] as u8) << 1) | ((x[2] as u8) << 2) | ((x[3] as u8) << 3)
    }
    /// the function the cut table promises for the root on the mapped leaves, and - asserted first, then used - the chain that links it to the pattern:
    ///   y_i := z[perm[i]] ^ neg_i                                    (what the code must feed to canonical variable i)
    ///   (a) bit m_y of pat.tt()       == pat evaluated on y          (unit npn: pattern_tt_is_its_function; re-checked here on the real tt())
    ///   (b) bit m_y of t.apply(tt)    == out_neg ^ tt(z'), z'[perm[i]] = y_i ^ neg_i   (unit npn: apply_is_the_documented_composition; re-checked on the real apply())
    ///   (c) z' == z                                                  (perm is a permutation)
    ///   => tt(z) == out_neg ^ pat(y)
    fn promised(c: &CutCase, z: [bool; 4]) -> bool {
        let (p, neg) = (c.t.perm, c.t.in_neg);
        let y = [z[p[0] as usize] ^ (neg & 1 != 0), z[p[1] as usize] ^ (neg & 2 != 0), z[p[2] as usize] ^ (neg & 4 != 0), z[p[3] as usize] ^ (neg & 8 != 0)];
        let my = minterm(y);
        let pa = (c.pat.tt() >> my) & 1 == 1;
        let pv = pattern_value_at(&c.pat, y);
        assert!(pa == pv, "(a) AigPattern::tt bit != pattern evaluated on the assignment");
        kani::assume(pa == pv);
        let ca = (c.canonical >> my) & 1 == 1;
        let nv = npn_value_at(c.tt, p, neg, c.t.out_neg, y);
        assert!(ca == nv, "(b) NpnTransform::apply bit != out_neg ^ tt(z')");
        kani::assume(ca == nv);
        let want = value_at(c.tt, z);
        assert!(nv == (c.t.out_neg ^ want), "(c) z' != z");
        kani::assume(nv == (c.t.out_neg ^ want));
        assert!(want == (c.t.out_neg ^ pv), "chain: tt(z) == out_neg ^ pat(y)");
        want
    }
    /// Some(e) ==> value(e) == tt(values of new_edge[leaf_i]) for every assignment, for every number of leaves and gates, every (canonical, t, pattern)
    /// allowed by unit npn's contracts; cuts with < 2 or > 4 leaves are never used; older nodes of the new AIG are untouched
    fn one_cut(gates: u8, in_library: bool) {
        oracle::reset();
        let c = any_case(0, gates, in_library, None);
        let (mut new_aig, ne) = any_dest();
        let before = new_aig.vals;
        let old = AigModule::with_values([false; VN], 1);
        let z = leaf_values(&c, &ne, &new_aig);
        let cuts = [cut_of(&c)];
        let r = try_library_rewrite(&mut new_aig, &old, 6, &cuts, &ne);
        assert!(frame_kept(&new_aig, &before), "try_library_rewrite changed an existing node of the new AIG");
        if let Some(e) = r {
            assert!(in_library, "a replacement although the class is not in the library");
            assert!(c.nl >= 2 && c.nl <= 4, "a cut with < 2 or > 4 leaves was used");
            assert!((c.pat.size() as u32) < c.cone_size, "a pattern that is not smaller than the cone was used");
            let want = promised(&c, z);
            assert!(new_aig.value(e) == want, "try_library_rewrite: the replacement edge does not compute the cut function on the mapped leaves");
        }
    }
    #[vp_proof(17)]
    pub fn try_library_rewrite_computes_cut_function_0_gates() {
        one_cut(0, true);
        one_cut(0, false);
    }
    #[vp_proof(17)]
    pub fn try_library_rewrite_computes_cut_function_1_gate() {
        one_cut(1, true);
    }
    #[vp_proof(17)]
    pub fn try_library_rewrite_computes_cut_function_2_gates() {
        one_cut(2, true);
    }
    #[vp_proof(17)]
    pub fn try_library_rewrite_computes_cut_function_3_gates() {
        one_cut(3, true);
    }
    /// canary: a two-gate replacement over four leaves is reachable under the assumptions taken from unit npn (must FAIL)
    #[vp_proof(17)]
    pub fn canary_try_library_rewrite_replaces() {
        oracle::reset();
        let c = any_case(0, 2, true, None);
        let (mut new_aig, ne) = any_dest();
        let old = AigModule::with_values([false; VN], 1);
        let cuts = [cut_of(&c)];
        let r = try_library_rewrite(&mut new_aig, &old, 6, &cuts, &ne);
        assert!(!(r.is_some() && c.nl == 4 && new_aig.mk_and_calls == 2));
    }
    /// two cuts of the same root (their tables describe the same root value on the mapped leaves): whichever wins the size comparison, the edge is right
    #[vp_proof(17)]
    pub fn try_library_rewrite_best_of_two_cuts_second_smaller() {
        two_cuts(1, 0);
    }
    #[vp_proof(17)]
    pub fn try_library_rewrite_best_of_two_cuts_first_smaller() {
        two_cuts(0, 1);
    }
    /// concrete leaf counts (3 and 2): both cuts reach compute_cut_tt, so the oracle's call counter (slot index) stays a constant for CBMC;
    /// the skip conditions and all leaf counts are covered by the one-cut harnesses
    fn two_cuts(g0: u8, g1: u8) {
        oracle::reset();
        let c0 = any_case(0, g0, true, Some(3));
        let c1 = any_case(1, g1, true, Some(2));
        let (mut new_aig, ne) = any_dest();
        let old = AigModule::with_values([false; VN], 1);
        let want = promised(&c0, leaf_values(&c0, &ne, &new_aig));
        kani::assume(want == promised(&c1, leaf_values(&c1, &ne, &new_aig)));
        let cuts = [cut_of(&c0), cut_of(&c1)];
        if let Some(e) = try_library_rewrite(&mut new_aig, &old, 6, &cuts, &ne) {
            assert!(new_aig.value(e) == want, "try_library_rewrite (two cuts): the chosen edge does not compute the root function");
        }
    }
}

//@@ section tail
/// stand-in for AigModule inside module rewrite_lib: implements exactly the CONTRACT of mk_and that harness mk_and_value_frame_and_sharing proves for the real
/// function (value(result) == value(a) & value(b), older nodes untouched, result is an edge onto an existing node) in its simplest form: every call appends a node and
/// records its value under the (symbolic) assignment chosen by the harness. try_library_rewrite / instantiate_pattern are verified against that contract.
pub mod valaig {
    use crate::graph::AigEdge;
    pub const VN: usize = 10;
    pub struct AigModule {
        pub vals: [bool; VN],
        pub n: usize,
        pub mk_and_calls: usize,
    }
    impl AigModule {
        /// nodes 0..n with the given values (node 0 must be false)
        pub fn with_values(vals: [bool; VN], n: usize) -> Self {
            AigModule { vals, n, mk_and_calls: 0 }
        }
        pub fn value(&self, e: AigEdge) -> bool {
            assert!((e.node() as usize) < self.n, "edge onto a node that does not exist");
            self.vals[e.node() as usize] ^ e.is_negated()
        }
        pub fn mk_and(&mut self, a: AigEdge, b: AigEdge) -> AigEdge {
            let v = self.value(a) & self.value(b);
            assert!(self.n < VN, "valaig stand-in: capacity exceeded");
            self.vals[self.n] = v;
            self.n += 1;
            self.mk_and_calls += 1;
            AigEdge::new((self.n - 1) as u32, false)
        }
    }
}

/// stand-ins for npn4::npn_canonical / npn4::lookup_canonical / compute_cut_tt inside module rewrite_lib: they hand out what the harness stored
/// (per call slot, in call order of the cut loop); the constraints (t.apply(tt) == canonical, pattern.tt() == canonical) are imposed by the harness
pub mod oracle {
    use crate::npn4::{AigPattern, NpnTransform, PatEdge, Tt4};
    use std::sync::atomic::{AtomicU64, AtomicUsize, Ordering::Relaxed};

    // per slot: word 0 = tt_known | tt<<8 | canonical<<24 | in_neg<<40 | out_neg<<48 ; word 1 = perm (4 x 8 bit) | in_library<<32 | gates<<40 ; word 2 = pattern edges
    static W: [[AtomicU64; 3]; 2] = [[AtomicU64::new(0), AtomicU64::new(0), AtomicU64::new(0)], [AtomicU64::new(0), AtomicU64::new(0), AtomicU64::new(0)]];
    static GATES: [AtomicUsize; 2] = [AtomicUsize::new(0), AtomicUsize::new(0)];
    static IN_LIB: [AtomicUsize; 2] = [AtomicUsize::new(0), AtomicUsize::new(0)];
    static TT_CALLS: AtomicUsize = AtomicUsize::new(0);
    static CANON_CALLS: AtomicUsize = AtomicUsize::new(0);
    static LOOKUP_CALLS: AtomicUsize = AtomicUsize::new(0);

    pub fn reset() {
        TT_CALLS.store(0, Relaxed);
        CANON_CALLS.store(0, Relaxed);
        LOOKUP_CALLS.store(0, Relaxed);
    }
    fn enc_edge(e: PatEdge) -> u64 {
        (e.0 as u64 & 7) | ((e.1 as u64) << 3)
    }
    fn dec_edge(w: u64) -> PatEdge {
        PatEdge((w & 7) as u8, (w >> 3) & 1 == 1)
    }
    /// `pat` is the pattern of the cut's class, `in_library` says whether lookup_canonical finds it (gate count and in_library are concrete in every harness and kept in their own cells so that they stay constants for CBMC: a symbolic Option<&AigPattern> makes every later allocation size symbolic)
    pub fn set(slot: usize, tt: Option<Tt4>, canonical: Tt4, t: NpnTransform, p: &AigPattern, in_library: bool) {
        let w0 = (tt.is_some() as u64) | ((tt.unwrap_or(0) as u64) << 8) | ((canonical as u64) << 24) | ((t.in_neg as u64) << 40) | ((t.out_neg as u64) << 48);
        let mut w1 = (t.perm[0] as u64) | ((t.perm[1] as u64) << 8) | ((t.perm[2] as u64) << 16) | ((t.perm[3] as u64) << 24);
        let mut w2 = 0u64;
        GATES[slot].store(p.ands.len(), Relaxed);
        IN_LIB[slot].store(in_library as usize, Relaxed);
        {
            let mut k = 0;
            while k < p.ands.len() && k < 3 {
                w2 |= (enc_edge(p.ands[k].0) | (enc_edge(p.ands[k].1) << 4)) << (8 * k);
                k += 1;
            }
            w2 |= enc_edge(p.output) << 24;
        }
        W[slot][0].store(w0, Relaxed);
        W[slot][1].store(w1, Relaxed);
        W[slot][2].store(w2, Relaxed);
    }
    /// compute_cut_tt of the k-th examined cut
    pub fn next_cut_tt() -> Option<Tt4> {
        let k = TT_CALLS.fetch_add(1, Relaxed);
        let w0 = W[k][0].load(Relaxed);
        if w0 & 1 == 1 { Some((w0 >> 8) as u16) } else { None }
    }
    /// npn4::npn_canonical: (canonical, t) of the cut whose table was handed out last; the argument must be that table
    pub fn npn_canonical(tt: Tt4) -> (Tt4, NpnTransform) {
        let k = TT_CALLS.load(Relaxed) - 1;
        CANON_CALLS.fetch_add(1, Relaxed);
        let (w0, w1) = (W[k][0].load(Relaxed), W[k][1].load(Relaxed));
        assert!(tt == (w0 >> 8) as u16, "npn_canonical was asked about a table other than the cut's");
        let perm = [w1 as u8, (w1 >> 8) as u8, (w1 >> 16) as u8, (w1 >> 24) as u8];
        ((w0 >> 24) as u16, NpnTransform { perm, in_neg: (w0 >> 40) as u8, out_neg: (w0 >> 48) & 1 == 1 })
    }
    /// npn4::lookup_canonical: the pattern stored for the current cut (or None: class not in the library); the argument must be its canonical table
    pub fn lookup_canonical(canonical_tt: Tt4) -> Option<&'static AigPattern> {
        let k = TT_CALLS.load(Relaxed) - 1;
        LOOKUP_CALLS.fetch_add(1, Relaxed);
        let (w0, w1, w2) = (W[k][0].load(Relaxed), W[k][1].load(Relaxed), W[k][2].load(Relaxed));
        assert!(canonical_tt == (w0 >> 24) as u16, "lookup_canonical was asked about a table other than npn_canonical's result");
        if IN_LIB[k].load(Relaxed) == 0 {
            return None;
        }
        let n = GATES[k].load(Relaxed);
        let mut ands = Vec::with_capacity(3);
        let mut j = 0;
        while j < n {
            let g = w2 >> (8 * j);
            ands.push((dec_edge(g), dec_edge(g >> 4)));
            j += 1;
        }
        Some(Box::leak(Box::new(AigPattern { ands, output: dec_edge(w2 >> 24) })))
    }
}
