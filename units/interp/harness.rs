// Unit `interp`: contracts for the interpreter's own glue in `Expression::eval` (simulator), widths <= 64.
// The trees below are REAL `crate::interp::Expression` values (the extracted enum) with `Expression::Value` leaves and the
// function called is the REAL, whole `Expression::eval` (arms Variable / DynamicVariable cut by rule EC).
// `crate::spec` is the IEEE 1800 reference of unit opeval (b4, ext_bit, truth, wf, any_v64 ...), included verbatim by unit.py.

// ---- rule EU: operator functions as uninterpreted functions (Ackermann encoding, one remembered application each) ---------
pub mod opuf {
    use crate::op::Op;
    use crate::value::{MaskCache, Value, ValueU64};

    type K = (u64, u64, u32, bool);
    fn key(v: &Value) -> K {
        match v { Value::U64(x) => (x.payload, x.mask_xz, x.width, x.signed), _ => panic!("a <=64-bit operand must stay in the <=64-bit representation") }
    }
    fn mk(r: K) -> Value { Value::U64(ValueU64 { payload: r.0, mask_xz: r.1, width: r.2, signed: r.3 }) }

    #[cfg(kani)]
    static mut MEMO_U: Option<(Op, K, usize, bool, K)> = None;
    #[cfg(kani)]
    static mut MEMO_B: Option<(Op, K, K, usize, bool, K)> = None;

    /// first application is remembered; a later application to the same arguments returns the same value, to different arguments an arbitrary one
    #[cfg(kani)]
    pub fn unary(op: &Op, x: &Value, width: usize, signed: bool, _c: &mut MaskCache) -> Value {
        let k = (*op, key(x), width, signed);
        unsafe {
            let m = MEMO_U;
            if let Some((o, a, w, s, r)) = m { if (o, a, w, s) == k { return mk(r); } }
            let r: K = (kani::any(), kani::any(), kani::any(), kani::any());
            if m.is_none() { MEMO_U = Some((k.0, k.1, k.2, k.3, r)); }
            mk(r)
        }
    }
    #[cfg(kani)]
    pub fn binary(op: &Op, x: &Value, y: &Value, width: usize, signed: bool, _c: &mut MaskCache) -> Value {
        let k = (*op, key(x), key(y), width, signed);
        unsafe {
            let m = MEMO_B;
            if let Some((o, a, b, w, s, r)) = m { if (o, a, b, w, s) == k { return mk(r); } }
            let r: K = (kani::any(), kani::any(), kani::any(), kani::any());
            if m.is_none() { MEMO_B = Some((k.0, k.1, k.2, k.3, k.4, r)); }
            mk(r)
        }
    }
}

pub mod harness {
    use crate::anyop::any_op;
    use crate::ct;
    use crate::interp::{Expression, ExpressionContext};
    use crate::op::Op;
    use crate::spec::B4::*;
    use crate::spec::*;
    use crate::value::{MaskCache, Value, ValueU64};

    /// a child expression: an arbitrary already-evaluated value (REAL variant `Expression::Value`)
    fn leaf(v: &ValueU64) -> Box<Expression> { Box::new(Expression::Value { value: Value::U64(v.clone()) }) }
    fn val(v: &ValueU64) -> Value { Value::U64(v.clone()) }
    fn run(e: &Expression) -> Value {
        let mut cache = MaskCache::default();
        e.eval(&mut cache)
    }
    fn run64(e: &Expression) -> ValueU64 {
        let r = run(e);
        as_u64(&r).expect("result of a <=64-bit expression must stay in the <=64-bit representation").clone()
    }
    fn same(a: &Value, b: &Value) -> bool {
        match (a, b) { (Value::U64(a), Value::U64(b)) => a == b, _ => panic!("a <=64-bit result must stay in the <=64-bit representation") }
    }
    fn bit(v: &ValueU64, k: usize) -> B4 { b4(v.payload, v.mask_xz, k) }

    // ---- Value leaf ----------------------------------------------------------------------------------------------------
    #[vp_proof_uf]
    pub fn leaf_value() {
        let v = any_v64();
        let e = Expression::Value { value: val(&v) };
        let r = run64(&e);
        assert!(r == v, "Value leaf: eval returned {:?}, stored {:?}", r, v);
        std::mem::forget(e);
    }

    // ---- Unary / Binary: the glue hands exactly (children's values, node width, node signed) to the operator function -----
    #[vp_proof_uf]
    pub fn unary_glue_uf() {
        let op = any_op();
        let x = any_v64();
        let w: usize = kani::any();
        let signed: bool = kani::any();
        kani::assume(w <= 64);
        let node = Expression::Unary { op, x: leaf(&x), expr_context: ExpressionContext { width: w, signed } };
        let r = run(&node);
        let mut cache = MaskCache::default();
        let e = op.eval_value_unary(&val(&x), w, signed, &mut cache);
        assert!(same(&r, &e), "Unary glue: eval(node) = {:?}, op.eval_value_unary(eval(x), node.width, node.signed) = {:?}", r, e);
        std::mem::forget(node);
    }
    #[vp_proof_uf]
    pub fn binary_glue_uf() {
        let op = any_op();
        let x = any_v64();
        let y = any_v64();
        let w: usize = kani::any();
        let signed: bool = kani::any();
        kani::assume(w <= 64);
        let node = Expression::Binary { x: leaf(&x), op, y: leaf(&y), expr_context: ExpressionContext { width: w, signed } };
        let r = run(&node);
        let mut cache = MaskCache::default();
        let e = op.eval_value_binary(&val(&x), &val(&y), w, signed, &mut cache);
        assert!(same(&r, &e), "Binary glue: eval(node) = {:?}, op.eval_value_binary(eval(x), eval(y), node.width, node.signed) = {:?}", r, e);
        std::mem::forget(node);
    }
    /// recursion: a Binary node over a Unary node over a leaf (three levels of the real `eval`)
    // unwind(2): CBMC does not see the variant of the innermost leaf (reached through two heap objects) as a constant and explores every arm there;
    // the recursive calls of those spurious arms are cut by the bound and their unwinding assertions are proved unreachable
    #[vp_proof_uf_u2]
    pub fn binary_over_unary_glue_uf() {
        let (op1, op2) = (any_op(), any_op());
        let x = any_v64();
        let y = any_v64();
        let (w1, w2): (usize, usize) = (kani::any(), kani::any());
        let (s1, s2): (bool, bool) = (kani::any(), kani::any());
        kani::assume(w1 <= 64 && w2 <= 64);
        let node = Expression::Binary {
            x: leaf(&y),
            op: op2,
            y: Box::new(Expression::Unary { op: op1, x: leaf(&x), expr_context: ExpressionContext { width: w1, signed: s1 } }),
            expr_context: ExpressionContext { width: w2, signed: s2 },
        };
        let r = run(&node);
        let mut cache = MaskCache::default();
        let e1 = op1.eval_value_unary(&val(&x), w1, s1, &mut cache);
        let e = op2.eval_value_binary(&val(&y), &e1, w2, s2, &mut cache);
        assert!(same(&r, &e), "nested glue: eval(node) = {:?}, expected {:?}", r, e);
        std::mem::forget(node);
    }

    // The same with the REAL operator functions, stated against the IEEE 1800 reference of unit opeval (so a counterexample is a real
    // input of the real code): the interpreter computes the IEEE result of a Binary / Unary node from the node's own width and signedness.
    /// `x - y` (11.4.2, operands extended to the node width per 11.8.2): sensitive to operand order, node width and node signedness
    #[vp_proof]
    pub fn binary_real_sub() {
        let x = any_v64();
        let y = any_v64();
        let w: usize = kani::any();
        let signed: bool = kani::any();
        kani::assume(w >= 1 && w <= 64 && w >= x.width as usize && w >= y.width as usize);
        kani::assume(!signed || (x.signed && y.signed));
        let node = Expression::Binary { x: leaf(&x), op: Op::Sub, y: leaf(&y), expr_context: ExpressionContext { width: w, signed } };
        let r = run64(&node);
        let (xp, xm) = ext(&x, w, signed);
        let (yp, ym) = ext(&y, w, signed);
        assert!(wf(&r) && r.width as usize == w && r.signed == signed, "Binary Sub node: result {:?}, node width = {}, node signed = {}", r, w, signed);
        if xm != 0 || ym != 0 {
            assert!(all_x(&r, w), "Binary Sub node with an x/z operand: {:?}", r);
        } else {
            assert!(r.mask_xz == 0 && r.payload == xp.wrapping_sub(yp) & rmask(w),
                "Binary Sub node: eval = {:?}, IEEE 1800: (x - y) mod 2^width on the operands extended to the node width; x = {:?}, y = {:?}, width = {}, signed = {}", r, x, y, w, signed);
        }
        std::mem::forget(node);
    }
    /// unary minus (11.4.3) on the operand extended to the node width
    #[vp_proof]
    pub fn unary_real_minus() {
        let x = any_v64();
        let w: usize = kani::any();
        let signed: bool = kani::any();
        kani::assume(w >= 1 && w <= 64 && w >= x.width as usize);
        kani::assume(!signed || x.signed);
        let node = Expression::Unary { op: Op::Sub, x: leaf(&x), expr_context: ExpressionContext { width: w, signed } };
        let r = run64(&node);
        let (xp, xm) = ext(&x, w, signed);
        assert!(wf(&r) && r.width as usize == w);
        if xm != 0 {
            assert!(all_x(&r, w));
        } else {
            assert!(r.mask_xz == 0 && r.payload == 0u64.wrapping_sub(xp) & rmask(w),
                "Unary minus node: eval = {:?}, IEEE 1800: (-x) mod 2^width on the operand extended to the node width; x = {:?}, width = {}, signed = {}", r, x, w, signed);
        }
        std::mem::forget(node);
    }

    // ---- Ternary (IEEE 1800 11.4.11 for a condition with a known 1 / all bits known 0) ----------------------------------------
    // selected = (some bit of the condition is a known 1) ? true branch : false branch;
    // the selected value is extended to the node's width, sign-extending iff the NODE is signed (= both branches signed) and so is the value.
    fn ternary_inputs() -> (ValueU64, ValueU64, ValueU64, usize, bool) {
        let c = any_v64();
        let t = any_v64();
        let f = any_v64();
        let width: usize = kani::any();
        let signed: bool = kani::any();
        kani::assume(width <= 64);
        (c, t, f, width, signed)
    }
    fn ternary_node(c: &ValueU64, t: &ValueU64, f: &ValueU64, width: usize, signed: bool) -> Expression {
        Expression::Ternary { cond: leaf(c), true_expr: leaf(t), false_expr: leaf(f), width, signed }
    }
    #[vp_proof_uf]
    pub fn ternary_select_extend() {
        let (c, t, f, width, signed) = ternary_inputs();
        let node = ternary_node(&c, &t, &f, width, signed);
        let r = run64(&node);
        let sel = if truth(&c) == Some(true) { &t } else { &f };
        let sw = sel.width as usize;
        assert!(r.width as usize == sw.max(width), "Ternary: result width {} != max(selected width {}, node width {})", r.width, sw, width);
        assert!(wf(&r), "Ternary: result violates the representation invariant: {:?}", r);
        if sw >= width {
            assert!(r == *sel, "Ternary: selected branch {:?} is already node-wide but the result is {:?}", sel, r);
        } else {
            let sext = signed && sel.signed;
            let k: usize = kani::any();
            kani::assume(k < 64);
            let e = if k < width { ext_bit(sel, k, sext) } else { Zero };
            assert!(bit(&r, k) == e,
                "Ternary: bit {} of the result is {:?}, IEEE 1800 11.4.11/11.8.2 extension of the selected branch gives {:?}; cond = {:?}, true = {:?}, false = {:?}, node width = {}, node signed = {}, result = {:?}",
                k, bit(&r, k), e, c, t, f, width, signed, r);
            assert!(r.signed == sext, "Ternary: result.signed = {}, node.signed = {}, selected.signed = {}", r.signed, signed, sel.signed);
        }
        std::mem::forget(node);
    }
    /// mixed signedness spelled out: an unsigned node never sign-extends a signed branch; a both-signed node does
    #[vp_proof_uf]
    pub fn ternary_mixed_signedness() {
        let (c, mut t, mut f, width, _s) = ternary_inputs();
        let t_signed: bool = kani::any();
        kani::assume(t.width >= 1 && f.width >= 1 && (t.width as usize) < width && (f.width as usize) < width);
        t.signed = t_signed;
        f.signed = !t_signed;                                     // exactly one branch signed: the expression type is unsigned
        let node = ternary_node(&c, &t, &f, width, t.signed && f.signed);
        let r = run64(&node);
        let sel = if truth(&c) == Some(true) { &t } else { &f };
        let k: usize = kani::any();
        kani::assume(k < width);
        let e = if k < sel.width as usize { bit(sel, k) } else { Zero };
        assert!(bit(&r, k) == e,
            "Ternary with one unsigned branch must zero-extend: bit {} is {:?}, expected {:?}; cond = {:?}, true = {:?}, false = {:?}, width = {}, result = {:?}",
            k, bit(&r, k), e, c, t, f, width, r);
        assert!(!r.signed, "Ternary with one unsigned branch yields a signed value {:?}", r);
        std::mem::forget(node);
    }

    // ---- Concatenation ------------------------------------------------------------------------------------------------
    fn sized_elem() -> (ValueU64, usize, usize) {
        let v = any_v64_sized();
        let rep: usize = kani::any();
        let elem_width: usize = kani::any();          // third tuple field: not read by eval
        kani::assume(rep <= 2);
        (v, rep, elem_width)
    }
    /// {e_1 x rep_1, .., e_n x rep_n}, e_1 most significant; bounded in the SHAPE (n <= 3 elements - one harness per n, so that the
    /// Vec has a concrete length -, rep <= 2 for n <= 2, rep <= 1 for n == 3), complete in the values, widths and signedness
    fn concat_layout(n: usize, max_rep: usize) {
        let e = [sized_elem(), sized_elem(), sized_elem()];
        kani::assume(e[0].1 <= max_rep && e[1].1 <= max_rep && e[2].1 <= max_rep);
        let signed: bool = kani::any();
        let mut total = 0usize;
        for i in 0..3 {
            if i < n { total += e[i].1 * e[i].0.width as usize; }
        }
        // IEEE 1800 11.4.12.1: a replication with count 0 is legal only inside a concatenation with at least one operand of positive size
        kani::assume(total >= 1 && total <= 64);
        let mut elements = Vec::with_capacity(3);
        for i in 0..3 {
            if i < n { elements.push((leaf(&e[i].0), e[i].1, e[i].2)); }
        }
        let node = Expression::Concatenation { elements, signed };
        let r = run64(&node);
        assert!(r.width as usize == total, "Concatenation: width {} != sum of repeat * element width = {}", r.width, total);
        assert!(r.signed == signed, "Concatenation: result.signed = {}, node.signed = {}", r.signed, signed);
        assert!(wf(&r), "Concatenation: result violates the representation invariant: {:?}", r);
        let k: usize = kani::any();
        kani::assume(k < 64);
        // walk the slots from the least significant side: the LAST element's last replica sits at bit 0
        let mut pos = 0usize;
        let mut expect = Zero;
        for i in (0..3).rev() {
            if i < n {
                let w = e[i].0.width as usize;
                let mut j = 0;                                   // replicas of one element are identical: their order does not matter
                while j < e[i].1 {
                    if k >= pos && k < pos + w { expect = bit(&e[i].0, k - pos); }
                    pos += w;
                    j += 1;
                }
            }
        }
        assert!(bit(&r, k) == expect,
            "Concatenation: bit {} is {:?}, layout gives {:?}; n = {}, elements (value, repeat, _) = {:?}, result = {:?}", k, bit(&r, k), expect, n, e, r);
        std::mem::forget(node);
    }
    #[vp_proof_uf]
    pub fn concat_layout_n1() { concat_layout(1, 2) }
    #[vp_proof_uf]
    pub fn concat_layout_n2() { concat_layout(2, 2) }
    #[vp_proof_uf]
    pub fn concat_layout_n3() { concat_layout(3, 1) }

    // ---- run time vs compile time: the analyzer's `Expression::eval_value` Ternary arm (extracted, crate::ct::ct_ternary) ------------
    fn ct_eval(c: &ValueU64, t: &ValueU64, f: &ValueU64, context_width: usize) -> Value {
        let mut cx = ct::Context;
        let x = Box::new(ct::Expression { v: Some(val(c)) });
        let y = Box::new(ct::Expression { v: Some(val(t)) });
        let z = Box::new(ct::Expression { v: Some(val(f)) });
        let r = ct::ct_ternary(&x, &y, &z, context_width, &mut cx).expect("constant children give a constant");
        std::mem::forget((x, y, z));
        r
    }
    /// the node the simulator's conversion builds: width = the analyzer's context width, signed = both branches signed
    fn ct_rt_inputs() -> (ValueU64, ValueU64, ValueU64, usize) {
        let (c, t, f, cw, _s) = ternary_inputs();
        kani::assume(cw >= 1 && cw >= t.width as usize && cw >= f.width as usize);   // apply_context: context width covers both branches
        (c, t, f, cw)
    }
    /// EVERY well-formed <=64-bit condition value (known, known-1-with-x/z, x/z only): both evaluators select the same branch
    /// ("some bit is a known 1") and extend it the same way
    #[vp_proof_uf]
    pub fn ct_rt_ternary_agree() {
        let (c, t, f, cw) = ct_rt_inputs();
        let node = ternary_node(&c, &t, &f, cw, t.signed && f.signed);
        let r = run(&node);
        let e = ct_eval(&c, &t, &f, cw);
        assert!(same(&r, &e), "Ternary: run time {:?}, compile time {:?}; cond = {:?}, true = {:?}, false = {:?}, width = {}", r, e, c, t, f, cw);
        std::mem::forget(node);
    }
    /// must FAIL (vacuity): a condition with a known 1 AND an x/z bit is among the inputs of the agreement harness, and it selects the true branch
    #[vp_proof_uf]
    pub fn canary_ct_rt_known1_with_xz_reachable() {
        let (c, t, f, cw) = ct_rt_inputs();
        kani::assume(truth(&c) == Some(true) && c.mask_xz != 0);
        kani::assume(t.width as usize == cw && f.width as usize == cw);
        let node = ternary_node(&c, &t, &f, cw, t.signed && f.signed);
        let r = run(&node);
        assert!(same(&r, &val(&f)));                  // false whenever the branches differ: the TRUE branch is taken here
        std::mem::forget(node);
    }

    // A condition wider than 64 bits (Value::BigUint; real num-bigint `!=` and `&` on both sides) is NOT under contract here: a harness with a
    // concrete 65-bit shape (two-digit payload and mask, low words symbolic) did not finish in CBMC within 10 minutes (Vec-backed digits).

    // ---- vacuity canaries (must FAIL) ----------------------------------------------------------------------------------------
    #[vp_proof_uf]
    pub fn canary_ternary() {
        let (c, t, f, width, signed) = ternary_inputs();
        kani::assume(signed && t.signed && (t.width as usize) < width && truth(&c) == Some(true));
        let node = ternary_node(&c, &t, &f, width, signed);
        let r = run64(&node);
        assert!(r.payload == t.payload);              // false for a negative true branch: the sign extension is reachable
        std::mem::forget(node);
    }
    #[vp_proof_uf]
    pub fn canary_concat() {
        let e = [sized_elem(), sized_elem(), sized_elem()];
        kani::assume(e[0].1 == 2 && e[1].1 == 0 && e[2].1 == 2);
        kani::assume(2 * e[0].0.width as usize + 2 * e[2].0.width as usize <= 64);
        let mut elements = Vec::with_capacity(3);
        for i in 0..3 { elements.push((leaf(&e[i].0), e[i].1, e[i].2)); }
        let node = Expression::Concatenation { elements, signed: true };
        let r = run64(&node);
        assert!(r.width < 4);
        std::mem::forget(node);
    }
}
