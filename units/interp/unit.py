"""interp — the interpreter engine's own glue in `Expression::eval` (crates/simulator/src/ir/expression.rs), widths <= 64 (C18).
Back end: Kani/CBMC on the REAL `enum Expression` and the REAL, whole `Expression::eval` (recursion and pattern matching included).

What is under contract here is what units opeval / bigeval do NOT see: which values, which width and which `signed` flag the arms
Value / Unary / Binary / Ternary / Concatenation hand to the (separately proved) operator functions and to Value::expand / Value::concat,
and that the Ternary extension rule matches the one compile-time evaluation (analyzer `Expression::eval_value`, Ternary arm) uses."""
import importlib.util
import os
import re

from vp.core import KaniJob
from vp.kani_run import Harness
from vp.extract import ExtractError, _norm
from vp.rustlex import match_close
from units.common import valuelib as VL

_spec = importlib.util.spec_from_file_location("vp_interp_armx", os.path.join(os.path.dirname(os.path.abspath(__file__)), "..", "bigeval", "armx.py"))
armx = importlib.util.module_from_spec(_spec)
_spec.loader.exec_module(armx)

SIM = "crates/simulator/src/ir/expression.rs"
AN = "crates/analyzer/src/ir/expression.rs"

# arms of `Expression::eval`'s `match self`: kept as they are / replaced by a panic (rule EC)
KEEP = ["Value", "Unary", "Binary", "Concatenation", "Ternary"]
CUT = ["Variable", "DynamicVariable"]
EC_BODY = '{ panic!("EC: arm not under contract in unit interp (raw-pointer read of simulator memory)") }'

TRUSTED = dict(VL.STUB_TRUST)
TRUSTED.update({
    r"kani::assume\(": "harness preconditions (operand representation invariant wf; node width <= 64; operator call-site facts as in unit opeval; "
                       "concatenation elements sized and total width <= 64) - see contract_clauses",
    r"kani::stub\(crate::op::Op::eval_value_": "EU: in the *_glue_uf harnesses Op::eval_value_unary / eval_value_binary are replaced (for the call made by the glue AND for the "
                                               "direct reference call) by the same Ackermann-encoded uninterpreted function, so `glue result == direct call` is proved for every "
                                               "operator and every function in their place; the operator functions themselves are proved in units opeval / bigeval",
    r"unsafe \{": "EU: static memo table of the Ackermann-encoded uninterpreted operator functions (harness code, not extracted code)",
    r"static mut MEMO": "EU: static memo table of the Ackermann-encoded uninterpreted operator functions (harness code, not extracted code)",
})


def variant_of(pattern_text):
    m = re.match(r"Expression\s*::\s*(\w+)\b", pattern_text.strip())
    return m.group(1) if m else None


def cut_arms(fn_item, scrutinee, keep, cut, new_body):
    """rule EC: in the unique outer `match <scrutinee> {` of fn_item every arm `Expression::V {..}` with V in `cut` gets its block replaced by
    `new_body`; the set of variants matched must be exactly keep + cut (a new or lost arm -> ExtractError -> undecided)."""
    toks, text = fn_item._toks, fn_item.orig
    want = _norm(scrutinee)
    cands = [m for m in armx._match_bodies(toks, fn_item.body_open + 1, fn_item.body_close)
             if _norm(text[toks[m[3][0]].start:toks[m[3][1] - 1].end]) == want]
    outer = [m for m in cands if not any(o[1] < m[0] < o[2] for o in cands if o is not m)]
    if len(outer) != 1:
        raise ExtractError("%s: expected exactly one outer `match %s {`, found %d" % (fn_item.name, scrutinee, len(outer)))
    _, ob, cb, _ = outer[0]
    seen = []
    for p0, p1, b0, b1, is_block in armx._arms(toks, ob, cb):
        v = variant_of(armx._span_text(text, toks, p0, p1))
        if v is None:
            raise ExtractError("%s: arm pattern `%s` is not an Expression variant" % (fn_item.name, armx._span_text(text, toks, p0, p1)[:60]))
        seen.append(v)
        if v in cut:
            if not is_block:
                raise ExtractError("%s: arm `Expression::%s` is not a block" % (fn_item.name, v))
            fn_item._repl.append((toks[b0].start, toks[b1].end, new_body))
            fn_item.rules.append("EC: arm `Expression::%s` of `match %s` replaced by a panic; the harnesses never construct that variant, reaching it fails the harness" % (v, scrutinee))
    if sorted(seen) != sorted(keep + cut):
        raise ExtractError("%s: arms of `match %s` are %s, the unit knows %s" % (fn_item.name, scrutinee, sorted(seen), sorted(keep + cut)))


def tuple_variant_types(enum_item, variant):
    """field types of the tuple variant `variant(..)` of an enum item, read off the definition (rule EA-fields)"""
    toks, text = enum_item._toks, enum_item.orig
    hits = [i for i, t in enumerate(toks) if t.kind == "ident" and t.text == variant and toks[i + 1].text == "("]
    if len(hits) != 1:
        raise ExtractError("%s: tuple variant %s found %d times" % (enum_item.name, variant, len(hits)))
    o = hits[0] + 1
    c = match_close(toks, o)
    tys, depth, start = [], 0, toks[o].end
    for j in range(o + 1, c):
        t = toks[j]
        if t.kind == "punct" and t.text in ("<", "(", "["):
            depth += 1
        elif t.kind == "punct" and t.text in (">", ")", "]"):
            depth -= 1
        elif t.kind == "punct" and t.text == "," and depth == 0:
            tys.append(_norm(text[start:t.start]))
            start = t.end
    last = _norm(text[start:toks[c].start])
    if last:
        tys.append(last)
    return tys


def op_variants(op_enum_item):
    """unit variants of `enum Op`, in order (for the mechanical `any_op`)"""
    toks = op_enum_item._toks
    o = next(i for i, t in enumerate(toks) if t.text == "{")
    c = match_close(toks, o)
    code = [toks[j] for j in range(o + 1, c) if toks[j].kind != "comment"]
    out = []
    for j, t in enumerate(code):
        if j % 2 == 0 and t.kind == "ident":
            out.append(t.text)
        elif not (j % 2 == 1 and t.text == ","):
            raise ExtractError("enum Op: `%s` is not a unit variant list" % t.text)
    return out


def interp_module(ctx, items):
    s = ctx.src(SIM)
    out = ["pub mod interp {", "use crate::op::Op;", "use crate::value::{MaskCache, Value, ValueU64};"]
    for kind, name in [("struct", "ExpressionContext"), ("enum", "Expression"), ("struct", "DynamicBitSelect")]:
        it = s.item(kind, name)
        if kind == "enum":
            # rule EL: explicit one-byte tag instead of the niche encoding rustc picks (the tag would live in the Option discriminant of
            # DynamicVariable::select). Layout only - no safe code can observe it - but CBMC's symbolic execution then sees the variant of a
            # freshly built Box<Expression> child as a constant and explores only the arm that is really taken (probe: 12092 -> 2007 steps).
            it.prepend("#[repr(u8)]")
            it.rules.append("EL: `#[repr(u8)]` prepended to `enum Expression`: explicit tag instead of niche encoding (layout only; semantics of safe code unchanged)")
        items.append(it)
        out.append(it.render())
    ev = s.item("fn", "eval", impl="Expression")
    cut_arms(ev, "self", KEEP, CUT, EC_BODY)
    items.append(ev)
    out.append("impl Expression {")
    out.append(ev.render())
    out.append("}\n}")
    return "\n".join(out) + "\n"


CT_STANDIN = """
    // harness stand-ins (trusted, see unit.py): a child expression of the compile-time tree is an arbitrary already-evaluated value
    // (None = "not a compile-time constant"); Context carries nothing the Ternary arm reads.
    pub struct Context;
    pub struct Expression { pub v: Option<Value> }
    impl Expression { pub fn eval_value(&self, _context: &mut Context) -> Option<Value> { self.v.clone() } }
"""


def ct_module(ctx, items):
    a = ctx.src(AN)
    en = a.item("enum", "Expression")
    tys = tuple_variant_types(en, "Ternary")
    if tys[:3] != ["Box<Expression>"] * 3 or len(tys) != 4:
        raise ExtractError("analyzer Expression::Ternary fields are %s" % tys)
    f = a.item("fn", "eval_value", impl="Expression")
    # EA-locals: the enclosing function's local `context_width` is bound before the match; it becomes a parameter with exactly that meaning
    if f.orig.count("let context_width = self.comptime().expr_context.width;") != 1:
        raise ExtractError("eval_value: `let context_width = ..` anchor lost")
    hdr = "pub fn ct_ternary(x: &%s, y: &%s, z: &%s, context_width: usize, context: &mut Context) -> Option<Value>" % tuple(tys[:3])
    arm = armx.match_arm(f, "self", "Expression::Ternary(x, y, z, _)", "ct_ternary", hdr)
    arm.rules.append("EA-fields: parameters are the arm's pattern binders with the field types read off `enum Expression` (%s); `context_width` is the enclosing "
                     "function's local bound before the match (= self.comptime().expr_context.width), `context` its parameter" % ", ".join(tys))
    items.append(arm)
    return "pub mod ct {\n    use crate::value::{MaskCache, Value};\n" + CT_STANDIN + arm.render() + "\n}\n"


def opeval_spec(ctx):
    """the IEEE 1800 reference helpers of unit opeval (`pub mod spec {..}` of units/opeval/harness.rs), reused verbatim"""
    t = ctx.unit_file("opeval", "harness.rs")
    a, b = t.index("pub mod spec {"), t.index("pub mod harness {")
    return t[a:b]


def any_op_text(variants):
    arms = "".join("            %d => Op::%s,\n" % (i, v) for i, v in enumerate(variants))
    return ("pub mod anyop {\n    use crate::op::Op;\n    /// every variant of `enum Op` (generated from the extracted enum)\n    pub const N_OPS: u8 = %d;\n"
            "    pub fn any_op() -> Op {\n        let i: u8 = kani::any();\n        kani::assume(i < N_OPS);\n        match i {\n%s            _ => unreachable!(),\n        }\n    }\n}\n"
            % (len(variants), arms))


# CBMC keeps a struct field-sensitive (so that a freshly written enum tag is a constant during symbolic execution) only while the arrays
# inside it have at most --max-field-sensitivity-array-size (default 64) elements; Kani pads the small variants of the 112-byte
# `enum Expression` with byte arrays longer than that. The flag is a pure performance knob (same formula, more constant propagation).
# KaniJob has no parameter for CBMC arguments (`--cbmc-args` must be last on the command line, the runner appends --harness after `extra`),
# so it travels as Kani's per-package configuration in the generated Cargo.toml, appended to the last dependency line.
KANI_FLAGS_TOML = '\n\n[package.metadata.kani.flags]\ncbmc-args = ["--max-field-sensitivity-array-size", "1024"]\n\n[package.metadata.kani.unstable]\nunstable-options = true'
DEPS = dict(VL.DEPS)
DEPS[list(DEPS)[-1]] += KANI_FLAGS_TOML

UF_ATTRS = ("#[cfg_attr(kani, kani::stub(crate::op::Op::eval_value_unary, crate::opuf::unary))]\n"
            "#[cfg_attr(kani, kani::stub(crate::op::Op::eval_value_binary, crate::opuf::binary))]")

SHAPE = "shape: exactly %d element(s), repeat counts 0..=%d, 1 <= total width <= 64 (element values, widths and signedness symbolic)"
KINDS = {"concat_layout_n%d" % n: ("bounded", SHAPE % (n, 2 if n <= 2 else 1)) for n in range(1, 4)}
FN_OF = [("leaf", "Expression::eval [Value arm]"), ("unary", "Expression::eval [Unary arm]"), ("binary", "Expression::eval [Binary arm]"),
         ("ternary", "Expression::eval [Ternary arm]"), ("concat", "Expression::eval [Concatenation arm]"),
         ("ct_", "Expression::eval [Ternary arm] vs analyzer Expression::eval_value [Ternary arm]"), ("canary_ct", "analyzer Expression::eval_value [Ternary arm]")]


def build(ctx, res):
    vtext, vitems = VL.value_module(ctx)
    otext, oitems = VL.op_module(ctx)
    items = []
    itext = interp_module(ctx, items)
    ctext = ct_module(ctx, items)
    raw = ctx.unit_file("interp", "harness.rs")
    h = raw.replace("#[vp_proof_uf_u2]", VL.expand_harness_attrs("#[vp_proof]\n" + UF_ATTRS, unwind=2))
    h = h.replace("#[vp_proof_uf]", "#[vp_proof]\n" + UF_ATTRS)
    h = VL.expand_harness_attrs(h, unwind=8)
    lib = VL.PRELUDE + vtext + otext + itext + ctext + VL.BIG_STUBS + opeval_spec(ctx) + any_op_text(op_variants(oitems[0])) + h
    hs = []
    for n in re.findall(r"#\[vp_proof(?:_uf|_uf_u2)?\]\s*pub fn (\w+)", raw):
        kind, bound = ("canary", None) if n.startswith("canary_") else KINDS.get(n, ("proof", None))
        fn = [f for p, f in FN_OF if n.startswith(p) or (n.startswith("canary_") and n[7:].startswith(p))]
        hs.append(Harness("harness::" + n, kind=kind, fn=fn[-1] if fn else "Expression::eval", bound=bound))
    res.clauses.update({
        "scope": "REAL `enum Expression` (simulator) with `Expression::Value` leaves; the REAL `Expression::eval` text incl. recursion; arms Variable / DynamicVariable are cut (rule EC); "
                 "all operand and node widths <= 64 (big-integer code unreachable: stubs panic)",
        "Value": "eval(Value{value}) == value (all four fields)",
        "Unary/Binary": "eval(node) == op.eval_value_unary/binary(eval(x)[, eval(y)], node.expr_context.width, node.expr_context.signed): for EVERY operator with the operator functions "
                        "uninterpreted (rule EU; also through a nested Binary-over-Unary tree); and with the REAL operator functions a Binary Sub node and a Unary minus node "
                        "yield the IEEE 1800 result (opeval's reference) at the node's own width and signedness, under opeval's call-site preconditions",
        "Ternary": "c = eval(cond); selected = (some bit of c is a known 1) ? eval(true_expr) : eval(false_expr)  [IEEE 1800 11.4.11 for a known condition; an x/z-only condition takes "
                   "the false branch in both Veryl evaluators - IEEE merges the branches bit by bit; reported, not encoded]; selected.width >= node.width ==> result == selected; "
                   "otherwise result.width == node.width, wf(result), bit k == opeval ext_bit(selected, k, node.signed && selected.signed) for every k, "
                   "result.signed == (node.signed && selected.signed)",
        "Concatenation": "elements (e_i, repeat_i), e_i sized: result.width == sum(repeat_i * width_i); bit k of the result is the bit of the slot that covers k in the layout "
                         "{e_1 x repeat_1, ..., e_n x repeat_n} with e_1 most significant; result.signed == node.signed; wf(result)",
        "compile time vs run time (Ternary)": "with context width >= both branch widths, node.width == context width and node.signed == (both branch values signed): for EVERY well-formed "
                                              "<=64-bit condition value (known, known 1 together with x/z, x/z only) interpreter result == analyzer `eval_value` Ternary arm result "
                                              "(all fields). Conditions wider than 64 bits are not covered (CBMC does not finish on the num-bigint compare)",
    })
    res.trusted += [
        "interp: harness stand-in (compile-time side only): a child of the analyzer's Ternary node is `ct::Expression { v: Option<Value> }` whose eval_value returns the stored, "
        "already-evaluated value; `ct::Context` is empty (the arm only passes it on). The run-time side uses the real enum and no stand-in",
        "interp: leaves of the run-time trees are the real variant `Expression::Value` (an arbitrary already-evaluated value); Variable / DynamicVariable reads are out of scope (rule EC)",
        "interp: CBMC option --max-field-sensitivity-array-size 1024 (constant propagation knob, passed as Kani package metadata in the generated Cargo.toml)",
    ]
    res.samples.append({"obligation": "kani:interp:ternary_select_extend", "contract": res.clauses["Ternary"]})
    res.notes.append("interp: rule EC replaces the Variable / DynamicVariable arms of Expression::eval by panic!; the set of arms is checked against the unit's list "
                     "(a new arm makes the run undecided); rule EU = Ackermann-encoded uninterpreted operator functions (kani::stub on Op::eval_value_*), natively the real functions run")
    return [KaniJob("interp", lib, hs, deps=DEPS, items=vitems + oitems + items, trusted=TRUSTED, jobs=3, timeout=2400, per_harness_timeout=900)]
