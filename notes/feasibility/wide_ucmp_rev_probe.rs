use vstd::prelude::*;
verus! {
global size_of usize == 8;

#[verifier::external_body]
fn rd(p: &Vec<u64>, i: usize) -> (r: u64)
    requires i < p.len()
    ensures r == p[i as int]
{ p[i] }

fn nw(nb: u32) -> (r: usize) ensures r == nb as usize / 8 { nb as usize / 8 }

pub open spec fn lex_lt(a: Seq<u64>, b: Seq<u64>, k: int) -> bool
    decreases k
{
    if k <= 0 { false } else { a[k-1] < b[k-1] || (a[k-1] == b[k-1] && lex_lt(a, b, k-1)) }
}

pub fn wide_ucmp(a: &Vec<u64>, b: &Vec<u64>, nb: u32) -> (r: i64)
    requires a.len() == nb as usize / 8, b.len() == nb as usize / 8,
    ensures
        r == -1 <==> lex_lt(a@, b@, a.len() as int),
        r == 1 <==> lex_lt(b@, a@, a.len() as int),
        r == 0 || r == 1 || r == -1,
{
    for i in (0..nw(nb)).rev()
        invariant
            a.len() == nb as usize / 8, b.len() == nb as usize / 8,
            forall|k: int| i <= k < a.len() ==> a@[k] == b@[k],
    {
        let ai = rd(a, i);
        let bi = rd(b, i);
        if ai < bi {
            return -1;
        }
        if ai > bi {
            return 1;
        }
    }
    0
}
} // verus!
fn main() {}
