use vstd::prelude::*;
use std::collections::BTreeMap;
verus! {
global size_of usize == 8;

#[derive(Clone, Debug, Default, PartialEq, Eq)]
pub struct FileEntry {
    pub hash: String,
    pub fragment: Option<String>,
    pub dependents: Vec<String>,
    pub tests: Vec<String>,
    pub diagnostics: Option<String>,
}

pub struct Store {
    files: BTreeMap<String, FileEntry>,
    next_files: BTreeMap<String, FileEntry>,
    on_disk_current: bool,
}

impl Store {
    pub fn entry(&self, src: &str) -> (r: Option<&FileEntry>)
        requires vstd::std_specs::btree::key_obeys_cmp_spec::<String>(),
    {
        self.files.get(src)
    }

    pub fn keep(&mut self, src: &str) 
        requires vstd::std_specs::btree::key_obeys_cmp_spec::<String>(),
        ensures final(self).files@ == old(self).files@,
            old(self).files@.contains_key(src@) ==> final(self).next_files@.dom() == old(self).next_files@.dom().insert(src@),
            !old(self).files@.contains_key(src@) ==> final(self).next_files@ == old(self).next_files@,
    {
        if let Some(entry) = self.files.get(src) {
            self.next_files.insert(src.to_string(), entry.clone());
        }
    }

    pub fn invalidate(&mut self, src: &str) 
        requires vstd::std_specs::btree::key_obeys_cmp_spec::<String>(),
        ensures final(self).files@ == old(self).files@,
           final(self).next_files@.dom() == old(self).next_files@.dom(),
           forall|k: Seq<char>| k != src@ && old(self).next_files@.contains_key(k) ==> final(self).next_files@[k] == old(self).next_files@[k],
           old(self).next_files@.contains_key(src@) ==> final(self).next_files@[src@].fragment.is_none() && final(self).next_files@[src@].hash == old(self).next_files@[src@].hash,
    {
        if let Some(entry) = self.next_files.get_mut(src) {
            entry.fragment = None;
        }
    }
}

} // verus!
fn main() {}
