use crate::op::Op;
use crate::value::{MaskCache, Value, ValueU64};

fn mask(w: usize) -> u64 { if w >= 64 { u64::MAX } else { (1u64 << w) - 1 } }

fn any_u64_value() -> ValueU64 {
    let width: u32 = kani::any();
    kani::assume(width >= 1 && width <= 64);
    let payload: u64 = kani::any();
    let mask_xz: u64 = kani::any();
    kani::assume(payload & !mask(width as usize) == 0);
    kani::assume(mask_xz & !mask(width as usize) == 0);
    ValueU64 { payload, mask_xz, width, signed: kani::any() }
}

// reference: extend to w
fn ext(v: &ValueU64, w: usize, use_sign: bool) -> (u64, u64) {
    let mut p = v.payload;
    let mut m = v.mask_xz;
    if (v.width as usize) < w && v.signed && use_sign {
        let hi = mask(w) & !mask(v.width as usize);
        if (p >> (v.width - 1)) & 1 == 1 { p |= hi; }
        if (m >> (v.width - 1)) & 1 == 1 { m |= hi; }
    }
    (p, m)
}

fn st_get<'a>(_c: &'a mut MaskCache, _w: usize) -> &'a num_bigint::BigUint { panic!("biguint path") }
fn st_gen_mask(_w: usize) -> num_bigint::BigUint { panic!("biguint path") }
fn st_new_x(_w: usize, _s: bool) -> crate::value::ValueBigUint { panic!("biguint path") }
fn st_new_biguint(_p: num_bigint::BigUint, _w: usize, _s: bool) -> crate::value::ValueBigUint { panic!("biguint path") }

#[kani::proof]
#[kani::stub(crate::value::MaskCache::get, st_get)]
#[kani::stub(crate::value::ValueBigUint::gen_mask, st_gen_mask)]
#[kani::stub(crate::value::ValueBigUint::new_x, st_new_x)]
#[kani::stub(crate::value::ValueBigUint::new_biguint, st_new_biguint)]
#[kani::unwind(3)]
fn binary_add_u64() {
    let x = any_u64_value();
    let y = any_u64_value();
    let w: usize = kani::any(); kani::assume(w<=64);
    kani::assume(w >= x.width as usize && w >= y.width as usize);
    let signed: bool = kani::any();
    let mut cache = MaskCache::default();
    let r = Op::Add.eval_value_binary(&Value::U64(x.clone()), &Value::U64(y.clone()), w, signed, &mut cache);
    let (xp, xm) = ext(&x, w, signed);
    let (yp, ym) = ext(&y, w, signed);
    match r {
        Value::U64(r) => {
            assert!(r.width as usize == w);
            if xm != 0 || ym != 0 {
                assert!(r.mask_xz == mask(w) && r.payload == 0);
            } else {
                assert!(r.mask_xz == 0);
                assert!(r.payload == xp.wrapping_add(yp) & mask(w));
            }
        }
        _ => assert!(false),
    }
}
