use vstd::prelude::*;
verus! {
global size_of usize == 8;

pub struct IdWindow { pub start: usize, pub end: usize }
pub struct IdRebase { pub base: usize, pub count: usize }

#[verifier::external_body]
fn err_msg() -> (r: String) { String::new() }

impl IdWindow {
    pub open spec fn wf(&self) -> bool { self.start <= self.end }
    pub open spec fn contains(&self, id: usize) -> bool { self.start < id && id <= self.end }

    pub fn count(&self) -> (r: usize)
        requires self.wf()
        ensures r == self.end - self.start
    {
        self.end - self.start
    }

    pub fn encode(&self, id: usize, what: &str) -> (r: Result<u64, String>)
        ensures
            self.contains(id) <==> r.is_ok(),
            r.is_ok() ==> r.unwrap() == id - self.start - 1,
    {
        if id > self.start && id <= self.end {
            Ok((id - self.start - 1) as u64)
        } else {
            Err(err_msg())
        }
    }
}

impl IdRebase {
    pub fn decode(&self, local: u64, what: &str) -> (r: Result<usize, String>)
        requires self.base + self.count < usize::MAX
        ensures
            (local < self.count) <==> r.is_ok(),
            r.is_ok() ==> r.unwrap() == self.base + local + 1,
    {
        let local = local as usize;
        if local < self.count {
            Ok(self.base + local + 1)
        } else {
            Err(err_msg())
        }
    }
}

fn encode_sentinel(window: &IdWindow, id: usize, what: &str) -> (r: Result<u64, String>)
    ensures
        (id == 0 || window.contains(id)) <==> r.is_ok(),
        r.is_ok() ==> r.unwrap() == (if id == 0 { 0 } else { id - window.start }),
{
    if id == 0 {
        Ok(0)
    } else {
        window.encode(id, what).map(|v: u64| -> (o: u64) requires v < u64::MAX ensures o == v + 1 { v + 1 })
    }
}

} // verus!
fn main() {}
