# Feasibility probe (design phase only, NOT part of the machinery):
# feeds crates/pretty/src/{doc,render}.rs verbatim to Verus after three outline rewrites.
# Result on 2026-09-21: Verus accepts the whole file; 25 functions verify with no contracts,
# the only failing obligations are arithmetic-overflow checks that need size preconditions.
import re
doc=open('/repo/crates/pretty/src/doc.rs').read()
ren=open('/repo/crates/pretty/src/render.rs').read()
ren=ren[:ren.index('#[cfg(test)]')]
doc=doc[:doc.index('pub fn text(')].replace('use std::rc::Rc;','')
ren=ren.replace('use crate::doc::{AnchoredText, CommentDoc, Doc};','').replace('use std::rc::Rc;','')
s='use vstd::prelude::*;\nuse std::rc::Rc;\nverus! {\nglobal size_of usize == 8;\n'+doc+ren+'\n} // verus!\nfn main() {}\n'
s=re.sub(r'^//!.*$','',s,flags=re.M)
s=re.sub(r"([A-Za-z_\.]+)\.matches\('\\n'\)\.count\(\)", r"vp_count_nl(&\1)", s)
s=re.sub(r"([A-Za-z_\.]+)\.chars\(\)\.count\(\)", r"vp_char_count(&\1)", s)
s=re.sub(r"([A-Za-z_\.]+)\.rsplit\('\\n'\)\.next\(\)\.unwrap_or\(\"\"\)", r"vp_last_line(&\1)", s)
# + external_body on strip_trailing_whitespace, assume_specification for String::{len,as_bytes,truncate},
# + #[verifier::exec_allows_no_decreases_clause] on the six looping functions.
