use vstd::prelude::*;
use vstd::arithmetic::power2::*;
verus! {
global size_of usize == 8;

pub open spec fn val(s: Seq<u64>) -> nat
    decreases s.len()
{
    if s.len() == 0 { 0 } else { (s[0] as nat) + 0x1_0000_0000_0000_0000nat * val(s.drop_first()) }
}

pub open spec fn valp(s: Seq<u64>, k: int) -> nat
    decreases k
{
    if k <= 0 { 0 } else { valp(s, k - 1) + (s[k - 1] as nat) * pow2(64 * (k - 1) as nat) }
}

pub assume_specification [u64::overflowing_add] (x: u64, y: u64) -> (r: (u64, bool))
    ensures r.0 as nat == (x as nat + y as nat) % 0x1_0000_0000_0000_0000nat, r.1 == (x as nat + y as nat >= 0x1_0000_0000_0000_0000nat);

#[verifier::external_body]
fn rd(p: &Vec<u64>, i: usize) -> (r: u64)
    requires i < p.len()
    ensures r == p[i as int]
{ p[i] }

#[verifier::external_body]
fn wr(p: &mut Vec<u64>, i: usize, v: u64)
    requires i < old(p).len()
    ensures final(p)@ == old(p)@.update(i as int, v)
{ p[i] = v; }

fn nw(nb: u32) -> (r: usize)
    ensures r == nb as usize / 8
{
    nb as usize / 8
}

proof fn lemma_pow2_64()
    ensures pow2(64) == 0x1_0000_0000_0000_0000nat
{
    lemma2_to64();
}

proof fn lemma_valp_update(s: Seq<u64>, k: int, i: int, v: u64)
    requires 0 <= k <= i < s.len()
    ensures valp(s.update(i, v), k) == valp(s, k)
    decreases k
{
    if k > 0 { lemma_valp_update(s, k - 1, i, v); }
}

pub fn wide_add(dst: &mut Vec<u64>, a: &Vec<u64>, b: &Vec<u64>, nb: u32)
    requires
        old(dst).len() == nb as usize / 8,
        a.len() == nb as usize / 8,
        b.len() == nb as usize / 8,
    ensures
        final(dst).len() == old(dst).len(),
        valp(final(dst)@, final(dst).len() as int) == (valp(a@, a.len() as int) + valp(b@, b.len() as int)) % pow2(64 * a.len() as nat),
{
    let mut carry = 0u64;
    for i in 0..nw(nb)
        invariant
            dst.len() == nb as usize / 8,
            a.len() == nb as usize / 8,
            b.len() == nb as usize / 8,
            carry <= 1,
            valp(dst@, i as int) + (carry as nat) * pow2(64 * i as nat) == valp(a@, i as int) + valp(b@, i as int),
    {
        let (sum1, c1) = rd(a, i).overflowing_add(rd(b, i));
        let (sum2, c2) = sum1.overflowing_add(carry);
        let ghost old_dst = dst@;
        wr(dst, i, sum2);
        proof {
            lemma_valp_update(old_dst, i as int, i as int, sum2);
            lemma_pow2_64();
            lemma_pow2_adds(64 * i as nat, 64);
            assert(pow2(64 * (i + 1) as nat) == pow2(64 * i as nat) * pow2(64)) by {
                assert(64 * (i + 1) as nat == 64 * i as nat + 64);
            }
            assert(!(c1 && c2));
            assert(sum2 as nat + ((c1 as nat) + (c2 as nat)) * 0x1_0000_0000_0000_0000nat == a@[i as int] as nat + b@[i as int] as nat + carry as nat);
            assert(valp(dst@, i + 1) == valp(dst@, i as int) + (sum2 as nat) * pow2(64 * i as nat));
            assert(valp(dst@, i + 1) + ((c1 as nat) + (c2 as nat)) * pow2(64 * (i+1) as nat) == valp(a@, i + 1) + valp(b@, i + 1)) by (nonlinear_arith)
                requires
                    valp(dst@, i + 1) == valp(dst@, i as int) + (sum2 as nat) * pow2(64 * i as nat),
                    valp(a@, i + 1) == valp(a@, i as int) + (a@[i as int] as nat) * pow2(64 * i as nat),
                    valp(b@, i + 1) == valp(b@, i as int) + (b@[i as int] as nat) * pow2(64 * i as nat),
                    valp(dst@, i as int) + (carry as nat) * pow2(64 * i as nat) == valp(a@, i as int) + valp(b@, i as int),
                    pow2(64 * (i + 1) as nat) == pow2(64 * i as nat) * 0x1_0000_0000_0000_0000nat,
                    sum2 as nat + ((c1 as nat) + (c2 as nat)) * 0x1_0000_0000_0000_0000nat == a@[i as int] as nat + b@[i as int] as nat + carry as nat;
        }
        carry = (c1 as u64) + (c2 as u64);
    }
    proof {
        let n = a.len() as int;
        // valp(dst) < 2^(64n)
        lemma_valp_bound(dst@, n);
        let p = pow2(64 * n as nat);
        assert(valp(dst@, n) + (carry as nat) * p == valp(a@, n) + valp(b@, n));
        if carry == 0 {
            vstd::arithmetic::div_mod::lemma_small_mod(valp(dst@, n), p);
        } else {
            vstd::arithmetic::div_mod::lemma_mod_add_multiples_vanish(valp(dst@, n) as int, p as int);
            vstd::arithmetic::div_mod::lemma_small_mod(valp(dst@, n), p);
        }
    }
}

proof fn lemma_valp_bound(s: Seq<u64>, k: int)
    requires 0 <= k <= s.len()
    ensures valp(s, k) < pow2(64 * k as nat)
    decreases k
{
    if k > 0 {
        lemma_valp_bound(s, k - 1);
        lemma_pow2_64();
        lemma_pow2_adds(64 * (k - 1) as nat, 64);
        assert(64 * k as nat == 64 * (k - 1) as nat + 64);
        assert(valp(s, k) < pow2(64 * (k - 1) as nat) * 0x1_0000_0000_0000_0000nat) by (nonlinear_arith)
            requires valp(s, k) == valp(s, k - 1) + (s[k - 1] as nat) * pow2(64 * (k - 1) as nat),
                     valp(s, k - 1) < pow2(64 * (k - 1) as nat),
                     (s[k-1] as nat) < 0x1_0000_0000_0000_0000nat;
    } else {
        lemma2_to64();
    }
}

} // verus!
fn main() {}
