#[derive(Clone, Debug, Default, PartialEq, Eq)]
pub struct ValueU64 {
    pub payload: u64,
    pub mask_xz: u64,
    pub width: u32,
    pub signed: bool,
}
impl ValueU64 {
    pub fn gen_mask(width: usize) -> u64 {
        if width >= 64 {
            u64::MAX
        } else {
            (1u64 << width) - 1
        }
    }

    pub fn gen_mask_range(beg: usize, end: usize) -> u64 {
        let width = beg + 1;
        let beg = Self::gen_mask(width);
        let end = !Self::gen_mask(end);
        beg & end
    }
    #[cfg_attr(kani, kani::requires(self.width <= 64 && beg < 64 && end <= beg))]
    #[cfg_attr(kani, kani::ensures(|r: &Self| r.width as usize == beg - end + 1 && !r.signed
        && r.payload == (self.payload >> end) & Self::gen_mask(beg - end + 1)
        && r.mask_xz == (self.mask_xz >> end) & Self::gen_mask(beg - end + 1)))]
    pub fn select(&self, beg: usize, end: usize) -> Self {
        if beg < end {
            Self::default()
        } else {
            let width = beg - end + 1;
            let mask = Self::gen_mask(width);

            // A select at/after bit 64 is outside a <=64-bit value; the native
            // `>>= end` would overflow. Out-of-range bits read as x in SV.
            if end >= 64 {
                return Self {
                    payload: 0,
                    mask_xz: mask,
                    width: width as u32,
                    signed: false,
                };
            }

            let mut ret = self.clone();

            ret.payload >>= end;
            ret.mask_xz >>= end;
            ret.payload &= mask;
            ret.mask_xz &= mask;
            ret.width = width as u32;
            ret.signed = false;

            ret
        }
    }
    #[cfg_attr(kani, kani::requires(self.width <= 64 && beg < 64 && end <= beg))]
    #[cfg_attr(kani, kani::modifies(self))]
    #[cfg_attr(kani, kani::ensures(|_r| self.width == old(self.width) && self.signed == old(self.signed)
        && (self.payload & !Self::gen_mask_range(beg, end)) == (old(self.payload) & !Self::gen_mask_range(beg, end) & Self::gen_mask(old(self.width) as usize))))]
    pub fn assign(&mut self, mut value: Self, beg: usize, end: usize) {
        if end >= 64 {
            return;
        }
        value.payload <<= end;
        value.mask_xz <<= end;

        let mask = Self::gen_mask(self.width as usize);
        let mask_range = Self::gen_mask_range(beg, end);
        let inv_mask = mask ^ mask_range;

        self.payload = (self.payload & inv_mask) | (value.payload & mask_range);
        self.mask_xz = (self.mask_xz & inv_mask) | (value.mask_xz & mask_range);
    }
}

#[cfg(kani)]
mod proofs {
    use super::*;
    fn bit(x: u64, i: usize) -> bool { i < 64 && (x >> i) & 1 == 1 }

    #[kani::proof_for_contract(ValueU64::select)]
    fn select_contract() {
        let v = ValueU64 { payload: kani::any(), mask_xz: kani::any(), width: kani::any(), signed: kani::any() };
        let _ = v.select(kani::any(), kani::any());
    }
    #[kani::proof_for_contract(ValueU64::assign)]
    fn assign_contract() {
        let mut v = ValueU64 { payload: kani::any(), mask_xz: kani::any(), width: kani::any(), signed: kani::any() };
        let w = ValueU64 { payload: kani::any(), mask_xz: kani::any(), width: kani::any(), signed: kani::any() };
        v.assign(w, kani::any(), kani::any());
    }

    #[kani::proof]
    fn select_bits() {
        let v = ValueU64 { payload: kani::any(), mask_xz: kani::any(), width: kani::any(), signed: kani::any() };
        kani::assume(v.width <= 64);
        kani::assume(v.payload & !ValueU64::gen_mask(v.width as usize) == 0);
        kani::assume(v.mask_xz & !ValueU64::gen_mask(v.width as usize) == 0);
        let beg: usize = kani::any();
        let end: usize = kani::any();
        kani::assume(beg < 64 && end <= beg);
        let r = v.select(beg, end);
        assert!(r.width as usize == beg - end + 1);
        let k: usize = kani::any();
        kani::assume(k < 64);
        if k < r.width as usize {
            assert!(bit(r.payload, k) == bit(v.payload, k + end));
            assert!(bit(r.mask_xz, k) == bit(v.mask_xz, k + end));
        } else {
            assert!(!bit(r.payload, k) && !bit(r.mask_xz, k));
        }
    }
}
