#!/bin/bash
# Runs the repository's pinned suite (BASELINE.json cmd) on /repo and compares with the stable-pass list.
# usage: tools/run_suite.sh <label>
set -u
label=${1:-run}
cd /repo
export CARGO_NET_OFFLINE=true
cargo nextest run --workspace --no-fail-fast --tool-config-file pb:/w/lib/nextest.toml --profile pb --test-threads 8 --offline > /tmp/suite_$label.log 2>&1
junit=$(find /repo/target/nextest/pb -name junit.xml | head -1)
python3 /w/lib/parse_tests.py --kind junit --glob "$junit" --out /tmp/suite_$label.json
python3 - "$label" <<'PY'
import json,sys
label=sys.argv[1]
b=json.load(open('/root/.vp/BASELINE.json'))
r=json.load(open('/tmp/suite_%s.json'%label))
stable=set(b['stable_pass']); passed=set(r['passed']); failed=set(r['failed'])
print("passed",len(passed),"failed",len(failed),"stable",len(stable))
print("stable tests not passing now:", sorted(stable-passed)[:50])
PY
