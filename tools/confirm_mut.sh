#!/bin/bash
# usage: tools/confirm_mut.sh <worktree> <k> <crate> [<crate>...]
# Confirms a seeded change in a scratch worktree: (1) patch+demo: the crates' existing tests pass and only the demo fails,
# (2) demo alone on HEAD: everything passes. Writes <worktree>/mut/<k>/confirm.txt
wt=$1; k=$2; shift 2
cd $wt || exit 3
export CARGO_NET_OFFLINE=true CARGO_TARGET_DIR=$wt/target CARGO_BUILD_JOBS=6
git checkout -q -- . ; git clean -fdq -e mut -e target
head=$(git -C /repo rev-parse HEAD); git checkout -q --detach $head
out=$wt/mut/$k/confirm.txt; : > $out
pk=""; for c in "$@"; do pk="$pk -p $c"; done
git apply mut/$k/patch.diff || { echo "patch does not apply at $head" >> $out; exit 1; }
git apply mut/$k/demo.diff || { echo "demo does not apply" >> $out; exit 1; }
cargo nextest run $pk --offline --test-threads 6 --no-fail-fast > mut/$k/with_patch.log 2>&1
echo "WITH PATCH + DEMO:" >> $out; grep -E "^\s+(FAIL|SIGABRT|SIGSEGV|TIMEOUT)" mut/$k/with_patch.log | sort -u >> $out; grep -E "Summary|error: could not compile" mut/$k/with_patch.log >> $out
git apply -R mut/$k/patch.diff
cargo nextest run $pk --offline --test-threads 6 --no-fail-fast > mut/$k/without_patch.log 2>&1
echo "DEMO ONLY (HEAD):" >> $out; grep -E "^\s+(FAIL|SIGABRT|SIGSEGV|TIMEOUT)" mut/$k/without_patch.log | sort -u >> $out; grep -E "Summary|error: could not compile" mut/$k/without_patch.log >> $out
git checkout -q -- . ; git clean -fdq -e mut -e target
cat $out
