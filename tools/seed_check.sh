#!/bin/bash
# usage: tools/seed_check.sh <seeded dir> <property id>...
# Applies seeded/<dir>/patch.diff to /repo, runs the given checks, undoes the patch straight afterwards.
d=$1; shift
cd /verif
git -C /repo diff --quiet || { echo "/repo has local changes, refusing"; exit 3; }
git -C /repo apply "$(realpath $d)/patch.diff" || { echo "patch does not apply"; exit 3; }
trap 'git -C /repo checkout -- . ' EXIT
for p in "$@"; do
  ./check $p > /tmp/seed_$(basename $d)_$p.log 2>&1; rc=$?
  echo "$(basename $d) $p rc=$rc"; grep "VIOLATION\|UNDECIDED\|failed obligation" /tmp/seed_$(basename $d)_$p.log | cut -c1-300
done
