#!/usr/bin/env python3
"""usage: tools/keep_seed.py <worktree>/mut/<k> <seed-id> <property> '<summary>' '<needs>' '<result>' '<failed obligations, comma separated>' '<replay>' '<ran>'
copies patch.diff / demo.diff / README.md / confirm.txt into /verif/seeded/<seed-id>/ and writes meta.json"""
import json, os, shutil, sys
src, sid, prop, summary, needs, result, failed, replay, ran = sys.argv[1:10]
dst = os.path.join("/verif/seeded", sid)
os.makedirs(dst, exist_ok=True)
for f in ("patch.diff", "demo.diff", "README.md", "confirm.txt"):
    if os.path.isfile(os.path.join(src, f)):
        shutil.copy(os.path.join(src, f), os.path.join(dst, f if f != "README.md" else "agent_README.md"))
json.dump({"id": sid, "property": prop, "summary": summary, "needs": needs, "result": result,
           "failed_obligations": [x.strip() for x in failed.split(",") if x.strip()], "replay": replay, "what_i_ran": ran},
          open(os.path.join(dst, "meta.json"), "w"), indent=1)
print("kept", dst)
