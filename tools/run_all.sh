#!/bin/bash
# Runs every claimed check (quick tier by default) against /repo and reports exit codes; rewrites evidence/*.json.
cd /verif
tier=${1:-quick}
rc_all=0
for p in $(python3 -c "import sys; sys.path.insert(0,'/verif'); from vp.props import PROPS; print(' '.join(sorted(PROPS)))"); do
  s=$(date +%s)
  ./check $p --tier $tier > /tmp/runall_$p.log 2>&1; rc=$?
  e=$(date +%s)
  echo "$p rc=$rc $((e-s))s $(tail -1 /tmp/runall_$p.log | cut -c1-150)"
  [ $rc -ne 0 ] && rc_all=1
done
exit $rc_all
