#!/usr/bin/env python3
"""Regenerates the table of seeded changes in DESIGN.md (between the SEEDED markers) from seeded/*/meta.json."""
import glob, json, os, re
ROOT = os.path.dirname(os.path.dirname(os.path.abspath(__file__)))
rows = ["| seeded change | property | what it breaks / needs | check result | obligation(s) that failed | replayed input |", "|---|---|---|---|---|---|"]
for f in sorted(glob.glob(os.path.join(ROOT, "seeded", "*", "meta.json"))):
    m = json.load(open(f))
    rows.append("| %s | %s | %s | %s | %s | %s |" % (
        os.path.basename(os.path.dirname(f)), m.get("property"), (m.get("summary", "") + " — needs: " + m.get("needs", "")).replace("|", "\\|").replace("\n", " "),
        m.get("result", "?"), ", ".join(m.get("failed_obligations", [])) or "—", m.get("replay", "—").replace("|", "\\|")))
table = "\n".join(rows)
p = os.path.join(ROOT, "DESIGN.md")
s = open(p).read()
if "SEEDED_TABLE_PLACEHOLDER" in s:
    s = s.replace("SEEDED_TABLE_PLACEHOLDER", "<!-- SEEDED:BEGIN -->\n" + table + "\n<!-- SEEDED:END -->")
else:
    s = re.sub(r"<!-- SEEDED:BEGIN -->.*?<!-- SEEDED:END -->", lambda _: "<!-- SEEDED:BEGIN -->\n" + table + "\n<!-- SEEDED:END -->", s, flags=re.S)
open(p, "w").write(s)
print(table)
