"""Unit runner, triage, known findings, evidence, CLI glue."""
import hashlib
import importlib.util
import json
import os
import re
import shutil
import subprocess
import sys
import time
import traceback

from .extract import ExtractError, Src
from . import verus_run, kani_run

ROOT = os.path.dirname(os.path.dirname(os.path.abspath(__file__)))
REPO = os.environ.get("VERIF_REPO", "/repo")

TRUST_PATTERNS = [
    r"\bassume\s*\(", r"\badmit\s*\(", r"external_body", r"assume_specification", r"exec_allows_no_decreases_clause",
    r"verifier::external\b", r"external_fn_specification", r"external_type_specification", r"kani::stub\b", r"verifier::truncate",
    r"verifier::nonlinear", r"verifier::spinoff_prover", r"\bunsafe\b",
]


class Ctx:
    def __init__(self, prop, tier, seed):
        self.prop, self.tier, self.seed = prop, tier, seed
        self.repo = REPO
        self.root = ROOT
        self.findings = load_findings()
        self._src = {}

    def src(self, rel):
        if rel not in self._src:
            self._src[rel] = Src(self.repo, rel)
        return self._src[rel]

    def outdir(self, unit):
        d = os.path.join(ROOT, "out", self.prop, unit)
        return d

    def unit_file(self, unit, name):
        return open(os.path.join(ROOT, "units", unit, name), encoding="utf-8").read()

    def active_findings(self, prop=None):
        return [f for f in self.findings if f["kind"] == "finding" and (prop is None or f["property"] == prop)]


def load_findings():
    out = []
    p = os.path.join(ROOT, "known_findings.txt")
    if not os.path.isfile(p):
        return out
    for line in open(p, encoding="utf-8"):
        line = line.strip()
        if not line or line.startswith("#"):
            continue
        m = re.match(r"^(finding|fixed): property=(\S+)\s+(.*)$", line)
        if not m:
            continue
        d = {"kind": m.group(1), "property": m.group(2), "rest": m.group(3)}
        for k, v in re.findall(r"(\w[\w-]*)=(\S+)", m.group(3)):
            d.setdefault(k, v)
        out.append(d)
    return out


# --------------------------------------------------------------------------
class Obl:
    """one obligation as reported: id, backend, status, kind"""

    def __init__(self, oid, backend, status, kind="proved", detail="", time_s=0.0, fn=None, bound=None):
        # status: discharged | failed | undecided ; kind: proved | bounded | canary
        self.id, self.backend, self.status, self.kind = oid, backend, status, kind
        self.detail, self.time_s, self.fn, self.bound = detail, time_s, fn, bound

    def j(self):
        d = {"id": self.id, "backend": self.backend, "status": self.status, "kind": self.kind, "time_s": round(self.time_s, 3)}
        if self.bound:
            d["bound"] = self.bound
        if self.detail and self.status != "discharged":
            d["detail"] = self.detail[:4000]
        return d


class UnitResult:
    def __init__(self, unit):
        self.unit = unit
        self.obls = []
        self.items = []          # functions under contract (describe())
        self.rules = []          # rewrite rules applied
        self.trusted = []        # trusted base entries
        self.cmds = []
        self.solver_s = 0.0
        self.undecided = []      # reasons
        self.failures = []       # dicts: {obl, detail, job}
        self.notes = []
        self.samples = []
        self.clauses = {}        # what the contracts say, for evidence
        self.jobs = {}


class VerusJob:
    def __init__(self, name, vf_text, vfile, expect_fns, canaries=(), rlimit=30, items=(), trusted=None, bounded=False, extra=()):
        self.name, self.text, self.vfile = name, vf_text, vfile
        self.expect_fns, self.canaries, self.rlimit = list(expect_fns), list(canaries), rlimit
        self.items, self.trusted = list(items), trusted or {}
        self.extra = list(extra)


class KaniJob:
    def __init__(self, name, lib_rs, harnesses, deps=None, items=(), trusted=None, jobs=8, timeout=3000, per_harness_timeout=None, extra=()):
        self.name, self.lib_rs, self.harnesses = name, lib_rs, harnesses
        self.deps, self.items, self.trusted = deps or {}, list(items), trusted or {}
        self.jobs, self.timeout, self.per_harness_timeout, self.extra = jobs, timeout, per_harness_timeout, list(extra)


def scan_trusted(text, whitelist, res, where):
    """mechanical scan; every hit must be explained by the unit's whitelist"""
    lines = text.splitlines()
    for i, line in enumerate(lines):
        code = line.split("//")[0]
        for pat in TRUST_PATTERNS:
            if re.search(pat, code):
                # find the explanation: the whitelist is {regex on this or next 6 lines: description}
                ctxt = "\n".join(lines[i:i + 7])
                for wpat, desc in whitelist.items():
                    if re.search(wpat, ctxt):
                        ent = "%s: %s" % (where, desc)
                        if ent not in res.trusted:
                            res.trusted.append(ent)
                        break
                else:
                    res.undecided.append("unexplained trusted construct in %s line %d: %s" % (where, i + 1, line.strip()[:120]))
                break


def run_verus_job(ctx, res, job):
    d = ctx.outdir(res.unit)
    os.makedirs(d, exist_ok=True)
    path = os.path.join(d, job.name + ".rs")
    open(path, "w").write(job.text)
    for it in job.items:
        res.items.append(it.describe())
        res.rules += ["%s: %s" % (it.name, r) for r in it.rules]
    open(os.path.join(d, job.name + ".extract.diff"), "w").write("".join(it.diff() for it in job.items))
    scan_trusted(job.text, job.trusted, res, job.name)
    r = verus_run.run_verus(path, rlimit=job.rlimit, extra=job.extra)
    res.cmds.append("cd %s && %s" % (d, r["cmd"]))
    res.solver_s += r["smt_ms"] / 1000.0
    res.jobs[job.name] = {"backend": "verus", "wall_s": round(r["wall_s"], 2), "smt_s": r["smt_ms"] / 1000.0,
                          "verified": r["verified"], "errors": r["n_errors"], "version": r.get("version", "")}
    open(os.path.join(d, job.name + ".stderr.txt"), "w").write(r["stderr"])
    if not r["json_ok"]:
        res.undecided.append("%s: verus produced no JSON (rc=%s): %s" % (job.name, r["rc"], r["stderr"][-600:]))
        return
    tool_errs = [e for e in r["errors"] if e["class"] == "tool"]
    if tool_errs and not r["fns"]:
        res.undecided.append("%s: generated file rejected by verus/rustc: %s" % (job.name, tool_errs[0]["text"][:1500]))
        return
    # group diagnostics by the function that encloses the reported line in the generated file
    by_label = {}
    glines = job.text.splitlines()
    fn_re = re.compile(r"^\s*(?:pub(?:\([a-z]+\))?\s+)?(?:(?:open|closed|uninterp)\s+)?(?:(?:proof|spec|exec|const|unsafe)\s+)*fn\s+(\w+)")
    for e in r["errors"]:
        lab = "?"
        if e["line"]:
            for ln in range(min(e["line"], len(glines)) - 1, -1, -1):
                m = fn_re.match(glines[ln])
                if m:
                    lab = m.group(1)
                    break
        by_label.setdefault(lab, []).append(e)
    for fn in job.expect_fns:
        oid = "verus:%s:%s" % (res.unit, fn)
        info = r["fns"].get(fn)
        if info is None:
            # functions with trivially true VCs are not listed by verus; treat absent + no error as discharged only
            # when the run as a whole reported no error for that label
            errs = [e for lab, es in by_label.items() for e in es if lab.split("::")[-1] == fn.split("::")[-1]]
            if errs:
                info = {"success": False, "us": 0}
            else:
                res.undecided.append("%s: expected function %s was not verified (missing from verus report)" % (job.name, fn))
                continue
        if info["success"]:
            res.obls.append(Obl(oid, "verus", "discharged", time_s=info["us"] / 1e6, fn=fn))
        else:
            errs = [e for lab, es in by_label.items() for e in es if lab.split("::")[-1] == fn.split("::")[-1]] or \
                   [e for e in r["errors"] if e["class"] != "obligation"]
            classes = {e["class"] for e in errs}
            detail = "\n\n".join(e["text"] for e in errs[:6])
            if "obligation" in classes:
                o = Obl(oid, "verus", "failed", detail=detail, fn=fn)
                res.obls.append(o)
                res.failures.append({"obl": o, "job": job, "errors": errs})
            else:
                res.obls.append(Obl(oid, "verus", "undecided", detail=detail, fn=fn))
                res.undecided.append("%s: %s not decided (%s): %s" % (job.name, fn, ",".join(sorted(classes)) or "no diagnostic", detail[:600]))
    # obligation diagnostics inside a function nobody expects (e.g. a new function in an ingested file): undecided, never silent
    expected_last = {fn.split("::")[-1] for fn in job.expect_fns}
    for lab, es in by_label.items():
        if lab not in expected_last and any(e["class"] == "obligation" for e in es):
            res.undecided.append("%s: verifier reported a failed obligation in `%s`, which is not under contract in this unit: %s" % (job.name, lab, es[0]["text"][:600]))
    # diagnostics that belong to no expected function (e.g. tool errors) make the run undecided
    for e in tool_errs:
        res.undecided.append("%s: tool error: %s" % (job.name, e["text"][:800]))
    # canaries: same file + canary lemmas, must all FAIL
    if job.canaries:
        ctext = job.text.replace("} // verus!\nfn main() {}", "\n".join(c[1] for c in job.canaries) + "\n} // verus!\nfn main() {}")
        cpath = os.path.join(d, job.name + "_canary.rs")
        open(cpath, "w").write(ctext)
        cr = verus_run.run_verus(cpath, rlimit=job.rlimit, extra=["--verify-root", "--verify-function", "vp_canary_*"])
        res.cmds.append("cd %s && %s" % (d, cr["cmd"]))
        for cname, _ in job.canaries:
            info = cr["fns"].get(cname)
            oid = "verus:%s:canary:%s" % (res.unit, cname)
            if info is not None and not info["success"]:
                res.obls.append(Obl(oid, "verus", "discharged", kind="canary", time_s=info["us"] / 1e6))
            else:
                res.obls.append(Obl(oid, "verus", "undecided", kind="canary", detail="canary verified or missing: precondition vacuous?"))
                res.undecided.append("%s: canary %s did not fail as required (vacuous precondition?)" % (job.name, cname))


def run_kani_job(ctx, res, job):
    d = os.path.join(ctx.outdir(res.unit), job.name)
    for it in job.items:
        res.items.append(it.describe())
        res.rules += ["%s: %s" % (it.name, r) for r in it.rules]
    hs = [h for h in job.harnesses if h.kind != "bounded" or True]
    kani_run.write_crate(d, "vp_" + job.name, "#![recursion_limit = \"1024\"]\n#![allow(dead_code, unused_imports, unused_variables, unused_mut, unused_parens, unused_macros, unreachable_code, unknown_lints, semicolon_in_expressions_from_non_local_macros)]\n" + kani_run.SHIM + job.lib_rs, job.deps, [h.name for h in job.harnesses], ctx.repo)
    open(os.path.join(d, "extract.diff"), "w").write("".join(it.diff() for it in job.items))
    scan_trusted(job.lib_rs, job.trusted, res, job.name)
    r = kani_run.run_kani(d, [h.name.split("::")[-1] for h in hs], jobs=job.jobs, timeout=job.timeout,
                          per_harness_timeout=job.per_harness_timeout, extra=job.extra)
    res.cmds.append("cd %s && %s" % (d, r["cmd"]))
    open(os.path.join(d, "kani.out.txt"), "w").write(r["out"])
    res.jobs[job.name] = {"backend": "kani+cbmc", "wall_s": round(r["wall_s"], 2), "harnesses": len(hs)}
    if not r["compiled"]:
        res.undecided.append("%s: harness crate did not build under kani: %s" % (job.name, r["out"][-2500:]))
        return
    for h in hs:
        short = h.name.split("::")[-1]
        hr = None
        for k, v in r["harnesses"].items():
            if k.split("::")[-1] == short:
                hr = v
        oid = "kani:%s:%s" % (res.unit, short)
        kind = {"bounded": "bounded", "canary": "canary"}.get(h.kind, "proved")
        if hr is None or hr["status"] in ("unknown", "resource"):
            res.obls.append(Obl(oid, "kani", "undecided", kind=kind, detail=(hr or {}).get("text", "no result"), fn=h.fn, bound=h.bound))
            res.undecided.append("%s: harness %s gave no verdict (%s)" % (job.name, short, (hr or {}).get("status", "missing")))
            continue
        res.solver_s += hr["time_s"]
        if h.kind == "canary":
            if hr["status"] == "failed":
                res.obls.append(Obl(oid, "kani", "discharged", kind="canary", time_s=hr["time_s"]))
            else:
                res.obls.append(Obl(oid, "kani", "undecided", kind="canary", detail="canary harness verified: assumptions vacuous?"))
                res.undecided.append("%s: canary %s did not fail as required" % (job.name, short))
            continue
        if hr["status"] == "success":
            res.obls.append(Obl(oid, "kani", "discharged", kind=kind, time_s=hr["time_s"], fn=h.fn, bound=h.bound,
                                detail="%d CBMC checks" % hr["checks"]))
            res.jobs[job.name].setdefault("cbmc_checks", 0)
            res.jobs[job.name]["cbmc_checks"] += hr["checks"]
        else:
            fc = "; ".join(hr["failed_checks"])
            if hr["failed_checks"] and all("unwinding assertion" in c for c in hr["failed_checks"]):
                res.obls.append(Obl(oid, "kani", "undecided", kind=kind, detail=fc, fn=h.fn, bound=h.bound))
                res.undecided.append("%s: %s only failed unwinding assertions (bound too small)" % (job.name, short))
                continue
            o = Obl(oid, "kani", "failed", kind=kind, detail=fc + "\n" + hr["text"], time_s=hr["time_s"], fn=h.fn, bound=h.bound)
            res.obls.append(o)
            res.failures.append({"obl": o, "job": job, "harness": h, "crate": d})


def load_unit(name):
    p = os.path.join(ROOT, "units", name, "unit.py")
    spec = importlib.util.spec_from_file_location("vp_unit_" + name, p)
    m = importlib.util.module_from_spec(spec)
    spec.loader.exec_module(m)
    return m


def run_unit(ctx, name):
    res = UnitResult(name)
    t0 = time.time()
    res.mod = None
    try:
        mod = load_unit(name)
        res.mod = mod
        shutil.rmtree(ctx.outdir(name), ignore_errors=True)
        os.makedirs(ctx.outdir(name), exist_ok=True)
        jobs = mod.build(ctx, res)
        for job in jobs:
            if isinstance(job, VerusJob):
                run_verus_job(ctx, res, job)
            else:
                run_kani_job(ctx, res, job)
    except ExtractError as e:
        res.undecided.append("extraction: %s" % e)
    except Exception as e:  # framework bug: never an alarm
        res.undecided.append("framework error: %s\n%s" % (e, traceback.format_exc()[-1500:]))
    res.wall_s = time.time() - t0
    return res


# --------------------------------------------------------------------------
def baseline_path(unit):
    return os.path.join(ROOT, "units", unit, "baseline.json")


def load_baseline(unit):
    p = baseline_path(unit)
    if os.path.isfile(p):
        return json.load(open(p))
    return {"discharged": []}


def replay_failure(ctx, res, f):
    """try to obtain a concrete failing input and replay it natively; -> dict for the replay file"""
    o = f["obl"]
    info = {"property": ctx.prop, "unit": res.unit, "obligation": o.id, "backend": o.backend,
            "verifier_output": o.detail[:6000], "found_input": False}
    try:
        # concrete playback re-runs CBMC with trace generation (minutes per harness): at most 3 per unit and check run
        budget = getattr(ctx, "_playbacks", {})
        ctx._playbacks = budget
        if o.backend == "kani" and budget.get(res.unit, 0) >= 3:
            info["concrete_playback"] = "skipped: playback budget of 3 harnesses per unit used up (see the other replay files of this unit)"
        elif o.backend == "kani":
            budget[res.unit] = budget.get(res.unit, 0) + 1
            vals, txt = kani_run.playback(f["crate"], f["harness"].name.split("::")[-1], timeout=420, extra=f["job"].extra)
            info["concrete_playback"] = txt[-3000:] if txt else ""
            if vals is not None:
                rp = kani_run.native_replay(f["crate"], f["harness"].name, vals)
                info["native_replay"] = rp
                info["input_bytes"] = vals
                if rp["status"] == "fail":
                    info["found_input"] = True
                    info["actual_vs_expected"] = rp.get("msg", "")
                    info["replay_cmd"] = rp["cmd"]
        if not info["found_input"] and o.backend == "kani":
            fz = kani_run.native_fuzz(f["crate"], f["harness"].name, seed=ctx.seed)
            info["native_fuzz"] = {k: v for k, v in fz.items() if k != "vals"}
            if fz.get("status") == "found":
                info["found_input"] = True
                info["input_bytes"] = fz["vals"]
                info["actual_vs_expected"] = fz.get("msg", "")
                info["replay_cmd"] = fz.get("cmd")
        if not info["found_input"] and res.mod is not None and hasattr(res.mod, "replay"):
            r = res.mod.replay(ctx, res, f)
            if r:
                info.update(r)
    except Exception as e:
        info["replay_error"] = "%s\n%s" % (e, traceback.format_exc()[-1200:])
    return info


def run_property(prop, units, tier, seed, meta):
    """meta: dict(level, clause, assumptions, rule) for the evidence file"""
    t0 = time.time()
    ctx = Ctx(prop, tier, seed)
    shutil.rmtree(os.path.join(ROOT, "out", prop), ignore_errors=True)
    results = [run_unit(ctx, u) for u in units]
    violations, known_lines, undecided = [], [], []
    replay_dir = os.path.join(ROOT, "out", prop, "replay")
    os.makedirs(replay_dir, exist_ok=True)
    for res in results:
        base = set(load_baseline(res.unit)["discharged"])
        got = {o.id: o for o in res.obls}
        for oid in sorted(base):
            if oid not in got and not res.undecided:
                res.undecided.append("baseline obligation %s was not attempted on this tree" % oid)
        for f in res.failures:
            o = f["obl"]
            if o.id not in base:
                res.undecided.append("obligation %s failed but is not in the baseline (never verified at HEAD): not an alarm" % o.id)
                continue
            info = replay_failure(ctx, res, f)
            path = os.path.join(replay_dir, re.sub(r"[^\w.-]", "_", o.id) + ".json")
            json.dump(info, open(path, "w"), indent=1, default=str)
            violations.append((o, path, info))
        # thorough tier: seeded native differential run of the real code against the executable postconditions
        # (a cross-check of the spec functions and of the trusted outlines, not a substitute for the proofs)
        # The same run is the fallback when the proof could not even be attempted (lost anchor, ghost code no longer type-checks
        # after a refactoring, tool limit): undecided stays undecided unless the real code is SHOWN to violate the executable
        # postcondition on a concrete input - then that input is the violation.
        unit_undecided = bool(res.undecided) and not any(v[2].get("unit") == res.unit for v in violations)
        if res.mod is not None and hasattr(res.mod, "replay") and ((ctx.tier == "thorough" and not res.failures and not res.undecided) or unit_undecided):
            try:
                d = res.mod.replay(ctx, res, {"obl": None}) or {}
                res.notes.append("thorough: seeded native differential run (VERIF_SEED=%d): %s" % (ctx.seed, "FAILING INPUT " + json.dumps(d.get("input"), default=str)[:400] if d.get("found_input") else (d.get("native_search") or "")[:160].replace("\n", " ")))
                if d.get("found_input"):
                    o = Obl("native:%s:differential" % res.unit, "native", "failed", kind="proved",
                            detail="seeded native run of the real code disagrees with the executable postcondition" +
                                   ("; the deductive check of this unit was undecided on this tree: " + " | ".join(res.undecided)[:1500] if unit_undecided else ""))
                    info = {"property": ctx.prop, "unit": res.unit, "obligation": o.id, "backend": "native", "verifier_output": o.detail}
                    info.update(d)
                    path = os.path.join(replay_dir, re.sub(r"[^\w.-]", "_", o.id) + ".json")
                    json.dump(info, open(path, "w"), indent=1, default=str)
                    res.obls.append(o)
                    violations.append((o, path, info))
            except Exception as e:
                res.notes.append("thorough: native differential run crashed (ignored): %s" % e)
        # known findings: the unit replays its witnesses
        if res.mod is not None and hasattr(res.mod, "known_findings"):
            try:
                for line, ok in res.mod.known_findings(ctx, res):
                    if ok:
                        known_lines.append(line)
                    else:
                        res.undecided.append("known finding could not be reproduced: %s" % line)
            except Exception as e:
                res.undecided.append("known-finding witness replay crashed: %s" % e)
        undecided += ["[%s] %s" % (res.unit, u) for u in res.undecided]
    write_evidence(ctx, results, violations, undecided, meta, time.time() - t0)
    for line in known_lines:
        print("KNOWN-FINDING: property=%s %s" % (prop, line))
    for res in results:
        n_ok = sum(1 for o in res.obls if o.status == "discharged" and o.kind == "proved")
        n_b = sum(1 for o in res.obls if o.status == "discharged" and o.kind == "bounded")
        n_c = sum(1 for o in res.obls if o.status == "discharged" and o.kind == "canary")
        print("unit %-10s proved=%d bounded=%d canaries=%d failed=%d undecided=%d wall=%.1fs" % (
            res.unit, n_ok, n_b, n_c, len(res.failures), len(res.undecided), res.wall_s))
    if violations:
        for o, path, info in violations:
            tail = "" if info.get("found_input") else " no-failing-input-found"
            print("VIOLATION property=%s replay=%s%s" % (prop, path, tail))
            print("  failed obligation: %s" % o.id)
        return 1
    if undecided:
        for u in undecided:
            print("UNDECIDED: %s" % u[:3000])
        return 2
    print("OK property=%s tier=%s: all obligations discharged" % (prop, tier))
    return 0


def write_evidence(ctx, results, violations, undecided, meta, wall):
    obls = [o for r in results for o in r.obls]
    proved = [o for o in obls if o.kind == "proved"]
    ok = [o for o in proved if o.status == "discharged"]
    bounded = [o for o in obls if o.kind == "bounded"]
    canaries = [o for o in obls if o.kind == "canary"]
    trusted = []
    for r in results:
        for t in r.trusted:
            if t not in trusted:
                trusted.append(t)
    samples = []
    for r in results:
        samples += r.samples[:4]
    for o in ok[:6]:
        samples.append({"obligation": o.id, "backend": o.backend, "status": o.status, "time_s": round(o.time_s, 3)})
    ev = {
        "property_id": ctx.prop,
        "tier": ctx.tier,
        "seed": ctx.seed,
        "level": meta.get("level", "proof"),
        "coverage": {
            "obligations": len(proved),
            "discharged": len(ok),
            "checker_cmd": " ; ".join(c for r in results for c in r.cmds)[:6000] or "none",
            "trusted_base": trusted + meta.get("assumptions", []),
            "exhaustive": False,
            "explanation": meta.get("clause", ""),
            "samples": samples or [{"note": "no obligation was discharged on this run"}],
            "backends": sorted({o.backend for o in obls}),
            "solver_s": round(sum(r.solver_s for r in results), 2),
            "functions_under_contract": [i for r in results for i in r.items],
            "obligation_list": [o.j() for o in obls],
            "bounded_standins": [o.j() for o in bounded],
            "bounded_note": "bounded stand-ins are listed separately and are NOT counted in obligations/discharged",
            "canaries": {"total": len(canaries), "behaved": sum(1 for o in canaries if o.status == "discharged")},
            "rewrite_rules_applied": sorted({x for r in results for x in r.rules}),
            "contract_clauses": {r.unit: r.clauses for r in results if r.clauses},
            "jobs": {r.unit: r.jobs for r in results},
            "undecided": undecided,
            "notes": [n for r in results for n in r.notes],
        },
        "assumptions": trusted + meta.get("assumptions", []),
        "wall_s": round(wall, 2),
        "violations": len(violations),
    }
    os.makedirs(os.path.join(ROOT, "evidence"), exist_ok=True)
    json.dump(ev, open(os.path.join(ROOT, "evidence", ctx.prop + ".json"), "w"), indent=1, default=str)


def rebaseline(unit, tier="thorough", keep=False):
    ctx = Ctx("_baseline", tier, 0)
    res = run_unit(ctx, unit)
    ok = sorted(o.id for o in res.obls if o.status == "discharged")
    bad = [o.id for o in res.obls if o.status != "discharged"]
    json.dump({"discharged": ok, "note": "obligations discharged on the unchanged tree; written by ./check --rebaseline"},
              open(baseline_path(unit), "w"), indent=1)
    print("baseline for %s: %d discharged, %d not: %s" % (unit, len(ok), len(bad), bad))
    for u in res.undecided:
        print("UNDECIDED:", u[:3000])
    for f in res.failures:
        print("FAILED:", f["obl"].id, "\n", f["obl"].detail[:3000])
    if not keep:
        shutil.rmtree(os.path.join(ROOT, "out", "_baseline", unit), ignore_errors=True)
    return res


def native_search(ctx, unit, name, rs_text, args=(), timeout=600, deps=None):
    """Compile a stand-alone Rust program (real function text + executable postcondition) and run it.
    The program prints `FOUND <json>` for a failing input or `NONE <n tried>`. -> dict for the replay file."""
    d = os.path.join(ctx.outdir(unit), "native_" + name)
    shutil.rmtree(d, ignore_errors=True)
    os.makedirs(os.path.join(d, "src"))
    dep_lines = "\n".join('%s = %s' % (k, v) for k, v in (deps or {}).items())
    open(os.path.join(d, "Cargo.toml"), "w").write(
        '[package]\nname = "vp_native_%s"\nversion = "0.1.0"\nedition = "2024"\n[dependencies]\n%s\n[workspace]\n[profile.dev]\nopt-level = 1\ndebug = false\n' % (name, dep_lines))
    lock = os.path.join(ctx.repo, "Cargo.lock")
    if deps and os.path.isfile(lock):
        shutil.copy(lock, os.path.join(d, "Cargo.lock"))
    open(os.path.join(d, "src", "main.rs"), "w").write(rs_text)
    # one shared target directory for all native programs: dependencies (num-bigint, the parser crate ...) are built once
    env = dict(os.environ, CARGO_NET_OFFLINE="true", CARGO_TARGET_DIR=os.path.join(ROOT, "out", "_native_target"))
    cmd = ["cargo", "run", "--offline", "-q", "--"] + [str(a) for a in args]
    try:
        p = subprocess.run(cmd, cwd=d, capture_output=True, text=True, timeout=timeout, env=env)
    except subprocess.TimeoutExpired:
        return {"native_search": "timeout"}
    out = p.stdout
    for line in out.splitlines():
        if line.startswith("FOUND "):
            try:
                inp = json.loads(line[6:])
            except ValueError:
                inp = line[6:]
            return {"found_input": True, "input": inp, "replay_cmd": "cd %s && %s" % (d, " ".join(cmd)),
                    "native_search": "failing input found by seeded native run of the extracted function text against the executable postcondition"}
    return {"found_input": False, "native_search": (out + p.stderr)[-1500:]}


NATIVE_RNG = r'''
struct Rng(u64);
impl Rng {
    fn next(&mut self) -> u64 { self.0 ^= self.0 << 13; self.0 ^= self.0 >> 7; self.0 ^= self.0 << 17; self.0 }
    fn below(&mut self, n: u64) -> u64 { if n == 0 { 0 } else { self.next() % n } }
    /// boundary-heavy u64
    fn edge(&mut self) -> u64 {
        match self.below(8) { 0 => 0, 1 => 1, 2 => u64::MAX, 3 => u64::MAX - 1, 4 => 1u64 << self.below(64), 5 => (1u64 << self.below(64)).wrapping_sub(1), 6 => self.below(16), _ => self.next() }
    }
}
thread_local!(static VP_CASE: std::cell::RefCell<String> = std::cell::RefCell::new(String::new()));
/// remember the case about to be run; a panic inside the real code is then reported as a failing input
fn vp_case(s: String) { VP_CASE.with(|c| *c.borrow_mut() = s); }
fn vp_hook() {
    std::panic::set_hook(Box::new(|info| {
        let msg = info.to_string().replace('"', "'").replace('\n', " ");
        let case = VP_CASE.with(|c| c.borrow().clone());
        println!("FOUND {{\"panic\":\"{}\",\"case\":{}}}", msg, if case.is_empty() { "null".to_string() } else { case });
        std::process::exit(1);
    }));
}
fn vp_seed() -> u64 { std::env::args().nth(1).and_then(|s| s.parse::<u64>().ok()).unwrap_or(1).wrapping_mul(0x9E3779B97F4A7C15) | 1 }
'''


def try_unit(unit, tier="quick"):
    """run one unit against $VERIF_REPO (default /repo) without touching its baseline; for mutation smoke tests"""
    ctx = Ctx("_try_" + unit, tier, int(os.environ.get("VERIF_SEED", "1") or 1))
    res = run_unit(ctx, unit)
    base = set(load_baseline(unit)["discharged"])
    bad = [o for o in res.obls if o.status != "discharged"]
    print("unit %s on %s: %d obligations, %d discharged" % (unit, ctx.repo, len(res.obls), len(res.obls) - len(bad)))
    for u in res.undecided:
        print("UNDECIDED:", u[:2000])
    rc = 2 if res.undecided else 0
    if res.undecided and res.mod is not None and hasattr(res.mod, "replay"):
        try:
            d = res.mod.replay(ctx, res, {"obl": None}) or {}
        except Exception as e:
            d = {"native_search": "crashed: %s" % e}
        print("  undecided -> native differential fallback: found_input=%s input=%s" % (d.get("found_input"), json.dumps(d.get("input"), default=str)[:600] if d.get("found_input") else (d.get("native_search") or "")[-300:]))
        if d.get("found_input"):
            rc = 1
    for f in res.failures:
        o = f["obl"]
        print("FAILED%s: %s\n%s" % ("" if o.id in base else " (not in baseline)", o.id, o.detail[:2500]))
        if o.id in base:
            info = replay_failure(ctx, res, f)
            print("  replay: found_input=%s input=%s %s" % (info.get("found_input"), info.get("input") or info.get("input_bytes"), info.get("actual_vs_expected", "")))
            rc = 1
    return rc
