"""Minimal Rust lexer + item locator (stdlib only).

Good enough to locate items and match braces in rustfmt-formatted source:
line/nested block comments, string / raw string / byte string literals,
char literal vs lifetime, identifiers, numbers, single-char punctuation.
"""
import re


class LexError(Exception):
    pass


class Tok:
    __slots__ = ("kind", "text", "start", "end")

    def __init__(self, kind, text, start, end):
        self.kind, self.text, self.start, self.end = kind, text, start, end

    def __repr__(self):
        return "Tok(%s,%r,%d)" % (self.kind, self.text, self.start)


_ident = re.compile(r"[A-Za-z_][A-Za-z0-9_]*")
_number = re.compile(r"[0-9][0-9A-Za-z_]*(\.[0-9][0-9A-Za-z_]*)?")
_rawstr = re.compile(r"b?r(#*)\"")


def lex(s):
    toks = []
    i, n = 0, len(s)
    while i < n:
        c = s[i]
        if c in " \t\r\n":
            i += 1
            continue
        if s.startswith("//", i):
            j = s.find("\n", i)
            j = n if j < 0 else j
            toks.append(Tok("comment", s[i:j], i, j))
            i = j
            continue
        if s.startswith("/*", i):
            depth, j = 1, i + 2
            while j < n and depth:
                if s.startswith("/*", j):
                    depth += 1
                    j += 2
                elif s.startswith("*/", j):
                    depth -= 1
                    j += 2
                else:
                    j += 1
            toks.append(Tok("comment", s[i:j], i, j))
            i = j
            continue
        m = _rawstr.match(s, i)
        if m:
            hashes = m.group(1)
            close = '"' + hashes
            j = s.find(close, m.end())
            if j < 0:
                raise LexError("unterminated raw string at %d" % i)
            j += len(close)
            toks.append(Tok("str", s[i:j], i, j))
            i = j
            continue
        if c == '"' or (c == "b" and i + 1 < n and s[i + 1] == '"'):
            j = i + (2 if c == "b" else 1)
            while j < n and s[j] != '"':
                j += 2 if s[j] == "\\" else 1
            j += 1
            toks.append(Tok("str", s[i:j], i, j))
            i = j
            continue
        if c == "'" or (c == "b" and i + 1 < n and s[i + 1] == "'"):
            k = i + (1 if c == "b" else 0)
            # char literal: '\..' or 'x' ; lifetime otherwise
            if k + 1 < n and s[k + 1] == "\\":
                j = s.find("'", k + 3)
                j = j + 1
                toks.append(Tok("char", s[i:j], i, j))
                i = j
                continue
            if k + 2 < n and s[k + 2] == "'":
                j = k + 3
                toks.append(Tok("char", s[i:j], i, j))
                i = j
                continue
            m = _ident.match(s, k + 1)
            if m and c == "'":
                toks.append(Tok("lifetime", s[i:m.end()], i, m.end()))
                i = m.end()
                continue
            # multi-byte char literal like 'é'
            j = s.find("'", k + 1)
            if j < 0 or j - k > 8:
                raise LexError("bad quote at %d" % i)
            toks.append(Tok("char", s[i:j + 1], i, j + 1))
            i = j + 1
            continue
        m = _ident.match(s, i)
        if m:
            toks.append(Tok("ident", m.group(0), i, m.end()))
            i = m.end()
            continue
        m = _number.match(s, i)
        if m:
            toks.append(Tok("num", m.group(0), i, m.end()))
            i = m.end()
            continue
        toks.append(Tok("punct", c, i, i + 1))
        i += 1
    return toks


OPEN = {"(": ")", "[": "]", "{": "}"}
CLOSE = {")", "]", "}"}


def code_toks(toks):
    return [t for t in toks if t.kind != "comment"]


def match_close(toks, idx):
    """toks[idx] is an opening bracket; return index of its matching close."""
    depth = 0
    for j in range(idx, len(toks)):
        t = toks[j]
        if t.kind == "punct":
            if t.text in OPEN:
                depth += 1
            elif t.text in CLOSE:
                depth -= 1
                if depth == 0:
                    return j
    raise LexError("unbalanced bracket at %d" % toks[idx].start)
