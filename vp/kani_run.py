"""Build a stand-alone Kani harness crate from extracted text, run it, parse results."""
import os
import re
import shutil
import subprocess
import time

KANI_FLAGS = ["-Z", "function-contracts", "-Z", "stubbing"]

SHIM = r'''
// Native stand-in for the `kani` crate: lets the very same harness functions run as
// ordinary Rust against concrete byte vectors taken from a CBMC counterexample.
#[cfg(not(kani))]
#[allow(dead_code, unused_macros, unused_imports)]
pub mod kani {
    use std::cell::RefCell;
    thread_local!(pub static VALS: RefCell<std::collections::VecDeque<Vec<u8>>> = RefCell::new(Default::default()));
    pub struct Rejected;
    pub fn load(v: Vec<Vec<u8>>) { VALS.with(|q| *q.borrow_mut() = v.into_iter().collect()); }
    pub fn next_bytes(n: usize) -> Vec<u8> {
        let mut v = VALS.with(|q| q.borrow_mut().pop_front()).unwrap_or_default();
        v.resize(n, 0);
        v
    }
    pub trait Arbitrary: Sized { fn any() -> Self; }
    pub fn any<T: Arbitrary>() -> T { T::any() }
    pub fn any_where<T: Arbitrary, F: FnOnce(&T) -> bool>(f: F) -> T { let v = T::any(); assume(f(&v)); v }
    pub fn assume(c: bool) { if !c { std::panic::panic_any(Rejected); } }
    pub fn cover(_c: bool) {}
    macro_rules! prim { ($($t:ty),*) => { $( impl Arbitrary for $t { fn any() -> Self {
        let b = next_bytes(std::mem::size_of::<$t>()); let mut a = [0u8; std::mem::size_of::<$t>()]; a.copy_from_slice(&b); <$t>::from_le_bytes(a) } } )* } }
    prim!(u8, u16, u32, u64, u128, usize, i8, i16, i32, i64, i128, isize);
    impl Arbitrary for bool { fn any() -> Self { next_bytes(1)[0] & 1 == 1 } }
    impl Arbitrary for () { fn any() -> Self {} }
    impl<T: Arbitrary, const N: usize> Arbitrary for [T; N] { fn any() -> Self { std::array::from_fn(|_| T::any()) } }
    impl<T: Arbitrary> Arbitrary for Option<T> { fn any() -> Self { if bool::any() { Some(T::any()) } else { None } } }
    impl<A: Arbitrary, B: Arbitrary> Arbitrary for (A, B) { fn any() -> Self { (A::any(), B::any()) } }
    impl<A: Arbitrary, B: Arbitrary, C: Arbitrary> Arbitrary for (A, B, C) { fn any() -> Self { (A::any(), B::any(), C::any()) } }
}
#[cfg(not(kani))]
#[allow(unused_macros)]
macro_rules! kani_cover { ($($t:tt)*) => {} }
'''

MAIN = r'''
// native replay driver: vp_replay <harness> <hexbytes,hexbytes,...>
#[cfg(kani)]
fn main() {}
#[cfg(not(kani))]
fn main() {
    let a: Vec<String> = std::env::args().collect();
    let vals: Vec<Vec<u8>> = if a.len() > 2 && !a[2].is_empty() {
        a[2].split(',').map(|h| (0..h.len() / 2).map(|i| u8::from_str_radix(&h[2 * i..2 * i + 2], 16).unwrap()).collect()).collect()
    } else { vec![] };
    let f = match CRATE::vp_harness(&a[1]) { Some(f) => f, None => { println!("REPLAY unknown-harness"); std::process::exit(3) } };
    CRATE::kani::load(vals);
    std::panic::set_hook(Box::new(|_| {}));
    match std::panic::catch_unwind(f) {
        Ok(()) => { println!("REPLAY pass"); }
        Err(e) => {
            if e.downcast_ref::<CRATE::kani::Rejected>().is_some() { println!("REPLAY rejected-by-assumption"); std::process::exit(4) }
            let msg = e.downcast_ref::<String>().cloned().or_else(|| e.downcast_ref::<&str>().map(|s| s.to_string())).unwrap_or_default();
            println!("REPLAY fail {}", msg.replace('\n', " "));
            std::process::exit(1)
        }
    }
}
'''


FUZZ = r'''
// native random search: vp_fuzz <harness> <seed> <iterations>; runs the SAME harness function on pseudo-random byte vectors
// (biased towards small values and boundary patterns); assumption failures are skipped; a panic is a failing input.
#[cfg(kani)]
fn main() {}
#[cfg(not(kani))]
fn main() {
    let a: Vec<String> = std::env::args().collect();
    let f = match CRATE::vp_harness(&a[1]) { Some(f) => f, None => { println!("FUZZ unknown-harness"); std::process::exit(3) } };
    let mut s: u64 = a.get(2).and_then(|x| x.parse().ok()).unwrap_or(1u64).wrapping_mul(0x9E3779B97F4A7C15) | 1;
    let iters: u64 = a.get(3).and_then(|x| x.parse().ok()).unwrap_or(200000);
    let mut next = move || { s ^= s << 13; s ^= s >> 7; s ^= s << 17; s };
    std::panic::set_hook(Box::new(|_| {}));
    let mut tried = 0u64;
    for _ in 0..iters {
        let mut vals: Vec<Vec<u8>> = Vec::new();
        for _ in 0..48 {
            let r = next();
            let v: u64 = match r % 8 { 0 => 0, 1 => 1, 2 => u64::MAX, 3 => 1u64 << (next() % 64), 4 => (1u64 << (next() % 64)).wrapping_sub(1), 5 => next() % 70, 6 => next() % 4, _ => next() };
            vals.push(v.to_le_bytes().to_vec());
        }
        CRATE::kani::load(vals.clone());
        match std::panic::catch_unwind(f) {
            Ok(()) => { tried += 1; }
            Err(e) => {
                if e.downcast_ref::<CRATE::kani::Rejected>().is_some() { continue; }
                let msg = e.downcast_ref::<String>().cloned().or_else(|| e.downcast_ref::<&str>().map(|s| s.to_string())).unwrap_or_default();
                let hex: Vec<String> = vals.iter().map(|v| v.iter().map(|b| format!("{:02x}", b)).collect::<String>()).collect();
                println!("FUZZ found {} {}", hex.join(","), msg.replace('\n', " "));
                std::process::exit(1)
            }
        }
    }
    println!("FUZZ none {}", tried);
}
'''


class Harness:
    def __init__(self, name, kind="proof", bound=None, note="", expect="success", fn=None, unwind=None):
        """kind: 'contract' (proof_for_contract), 'proof' (complete: loop-free or constant-bound loops
        with unwinding assertions), 'bounded' (stand-in, never counted as proved), 'canary' (must FAIL)."""
        self.name, self.kind, self.bound, self.note, self.expect = name, kind, bound, note, expect
        self.fn = fn  # function under contract this harness decides (for evidence)


def write_crate(crate_dir, name, lib_rs, deps, harness_names, repo, extra_files=None):
    if os.path.isdir(crate_dir):
        shutil.rmtree(crate_dir)
    os.makedirs(os.path.join(crate_dir, "src", "bin"))
    os.makedirs(os.path.join(crate_dir, ".cargo"))
    dep_lines = "\n".join('%s = %s' % (k, v) for k, v in deps.items())
    open(os.path.join(crate_dir, "Cargo.toml"), "w").write(
        '[package]\nname = "%s"\nversion = "0.1.0"\nedition = "2024"\n\n[lib]\npath = "src/lib.rs"\n\n'
        '[dependencies]\n%s\n\n[lints.rust]\nunexpected_cfgs = { level = "allow" }\n\n[workspace]\n'
        '\n[profile.dev]\nopt-level = 1\ndebug = false\n' % (name, dep_lines))
    open(os.path.join(crate_dir, ".cargo", "config.toml"), "w").write("[net]\noffline = true\n")
    lock = os.path.join(repo, "Cargo.lock")
    if os.path.isfile(lock):
        shutil.copy(lock, os.path.join(crate_dir, "Cargo.lock"))
    table = "#[cfg(not(kani))]\npub fn vp_harness(n: &str) -> Option<fn()> {\n    match n {\n" + "".join(
        '        "%s" => Some(%s as fn()),\n' % (h.split("::")[-1], h) for h in harness_names) + "        _ => None,\n    }\n}\n"
    # the native shim is a module, not an extern crate: make `kani::` resolvable inside every module
    lib_rs = re.sub(r"(?m)^(\s*(?:pub(?:\([a-z]+\))? )?mod (?!kani\b)\w+ \{[ \t]*)$", r"\1\n#[cfg(not(kani))] #[allow(unused_imports)] use crate::kani;", lib_rs)
    open(os.path.join(crate_dir, "src", "lib.rs"), "w").write(lib_rs + "\n" + table)
    open(os.path.join(crate_dir, "src", "bin", "vp_replay.rs"), "w").write(MAIN.replace("CRATE", name))
    open(os.path.join(crate_dir, "src", "bin", "vp_fuzz.rs"), "w").write(FUZZ.replace("CRATE", name))
    for rel, text in (extra_files or {}).items():
        p = os.path.join(crate_dir, rel)
        os.makedirs(os.path.dirname(p), exist_ok=True)
        open(p, "w").write(text)


_check = re.compile(r"^(?:Thread (\d+): )?Checking harness ([\w:]+)\.\.\.")
_thread = re.compile(r"^Thread (\d+): ?(.*)$")


def parse_kani(out):
    """-> {harness: {status, checks, failed, failed_checks, time_s, text}}"""
    res = {}
    cur_by_thread = {}
    cur = None
    for line in out.splitlines():
        m = _check.match(line)
        if m:
            tid = m.group(1) or "0"
            name = m.group(2)
            res[name] = {"status": "unknown", "checks": 0, "failed": 0, "failed_checks": [], "time_s": 0.0, "text": []}
            cur_by_thread[tid] = name
            if m.group(1) is None:
                cur = name
            continue
        m = _thread.match(line)
        if m and m.group(1) in cur_by_thread:
            cur = cur_by_thread[m.group(1)]
            line = m.group(2)
        if cur is None:
            continue
        r = res[cur]
        r["text"].append(line)
        m = re.search(r"\*\* (\d+) of (\d+) failed", line)
        if m:
            r["failed"], r["checks"] = int(m.group(1)), int(m.group(2))
        if line.startswith("Failed Checks:"):
            r["failed_checks"].append(line[len("Failed Checks:"):].strip())
        elif r["failed_checks"] and line.strip() and not line.startswith(("VERIFICATION", " File:", "Verification Time", "Manual Harness", "Complete -", "Summary")) and r["status"] == "unknown":
            r["failed_checks"][-1] += " " + line.strip()
        if line.startswith("VERIFICATION:- "):
            r["status"] = "success" if "SUCCESSFUL" in line else "failed"
        m = re.match(r"Verification Time: ([\d.]+)s", line)
        if m:
            r["time_s"] = float(m.group(1))
        if "CBMC failed" in line or "out of memory" in line.lower() or "timed out" in line.lower():
            r["status"] = "resource"
        if "unwinding assertion" in line and "Failed Checks" in line:
            r["unwind_failed"] = True
    for r in res.values():
        r["text"] = "\n".join(r["text"][-60:])
    return res


def run_kani(crate_dir, harnesses, jobs=8, timeout=3600, extra=(), per_harness_timeout=None):
    env = dict(os.environ, CARGO_NET_OFFLINE="true")
    cmd = ["cargo", "kani"] + KANI_FLAGS + ["--output-format", "terse", "-j", str(jobs)] + list(extra)
    if per_harness_timeout:
        cmd += ["-Z", "unstable-options", "--harness-timeout", "%ds" % per_harness_timeout]
    for h in harnesses:
        cmd += ["--harness", h]
    t0 = time.time()
    try:
        p = subprocess.run(cmd, cwd=crate_dir, capture_output=True, text=True, timeout=timeout, env=env)
        out, rc = p.stdout + "\n" + p.stderr, p.returncode
    except subprocess.TimeoutExpired as e:
        out = (e.stdout.decode() if e.stdout else "") + "\n" + (e.stderr.decode() if e.stderr else "") + "\nvp: cargo kani timed out"
        rc = -9
    return {"cmd": "CARGO_NET_OFFLINE=true " + " ".join(cmd), "rc": rc, "wall_s": time.time() - t0,
            "out": out, "harnesses": parse_kani(out), "compiled": "Checking harness" in out or "Manual Harness Summary" in out or "No proof harnesses" in out}


def playback(crate_dir, harness, timeout=600, extra=()):
    """re-run one failing harness with --concrete-playback=print; -> list of byte vectors or None"""
    env = dict(os.environ, CARGO_NET_OFFLINE="true")
    cmd = ["cargo", "kani"] + KANI_FLAGS + ["--output-format", "terse", "-Z", "concrete-playback",
                                              "--concrete-playback=print", "--harness", harness] + list(extra)
    try:
        p = subprocess.run(cmd, cwd=crate_dir, capture_output=True, text=True, timeout=timeout, env=env)
    except subprocess.TimeoutExpired:
        return None, "concrete playback timed out after %ds" % timeout
    out = p.stdout
    i = out.find("let concrete_vals")
    if i < 0:
        return None, out[-2000:]
    j = out.find("];", i)
    vals = []
    for m in re.finditer(r"vec!\[([0-9, ]*)\]", out[i:j].split("= vec![", 1)[1]):
        s = m.group(1).strip()
        vals.append([int(x) for x in s.split(",") if x.strip()] if s else [])
    return vals, out[max(0, i - 1500):j + 2]


def native_replay(crate_dir, harness, vals, timeout=900):
    """compile the same crate with plain rustc/cargo and run the harness on the concrete bytes"""
    env = dict(os.environ, CARGO_NET_OFFLINE="true")
    hexs = ",".join("".join("%02x" % b for b in v) for v in vals)
    cmd = ["cargo", "run", "--offline", "-q", "--bin", "vp_replay", "--", harness.split("::")[-1], hexs]
    try:
        p = subprocess.run(cmd, cwd=crate_dir, capture_output=True, text=True, timeout=timeout, env=env)
    except subprocess.TimeoutExpired:
        return {"status": "timeout", "cmd": " ".join(cmd), "out": ""}
    line = [l for l in p.stdout.splitlines() if l.startswith("REPLAY ")]
    st = line[-1].split(" ", 2) if line else ["REPLAY", "build-error", ""]
    return {"status": st[1], "msg": st[2] if len(st) > 2 else "", "cmd": "cd %s && %s" % (crate_dir, " ".join(cmd)),
            "out": (p.stdout + p.stderr)[-3000:]}


def native_fuzz(crate_dir, harness, seed=1, iters=300000, timeout=420):
    """no CBMC counterexample available: run the same harness natively on pseudo-random inputs until it panics"""
    env = dict(os.environ, CARGO_NET_OFFLINE="true")
    cmd = ["cargo", "run", "--offline", "-q", "--release", "--bin", "vp_fuzz", "--", harness.split("::")[-1], str(seed), str(iters)]
    try:
        p = subprocess.run(cmd, cwd=crate_dir, capture_output=True, text=True, timeout=timeout, env=env)
    except subprocess.TimeoutExpired:
        return {"status": "timeout", "cmd": " ".join(cmd)}
    line = [l for l in p.stdout.splitlines() if l.startswith("FUZZ ")]
    if not line:
        return {"status": "build-error", "out": (p.stdout + p.stderr)[-1500:]}
    parts = line[-1].split(" ", 3)
    if parts[1] == "found":
        vals = [[int(h[i:i + 2], 16) for i in range(0, len(h), 2)] for h in parts[2].split(",")]
        return {"status": "found", "vals": vals, "msg": parts[3] if len(parts) > 3 else "", "cmd": "cd %s && %s" % (crate_dir, " ".join(cmd))}
    return {"status": "none", "tried": parts[2] if len(parts) > 2 else "?"}
