"""Which units decide which property, and what the evidence says about the claim."""
PROPS = {
    "C06": {
        "units": ["codec"],
        "level": "proof",
        "clause": "ID window/rebase codec (IdWindow::encode/count, IdRebase::decode, encode_sentinel/decode_sentinel) is a bijection between a "
                  "file's ID window and the reserved range, order preserving, sentinel-safe, and refuses every id outside the window at capture time.",
        "assumptions": ["not covered: non-ID analyzer state, that every ID-bearing field is serialised through these impls (serde derive), thread-local session plumbing"],
    },
    "C12": {
        "units": ["tokpos"],
        "level": "proof",
        "clause": "split_comment_token: every comment split out of a merged comment run reports the line, 1-based character column, absolute byte offset and byte "
                  "length of its regex match, in match order, for any number/size of comments and any UTF-8 text (Verus, unbounded).",
        "assumptions": ["not covered: positions parol's lexer assigns to ordinary tokens (external dependency), Token::end_line/end_column, token_range arithmetic",
                        "assumed: byte model of &str (utf8() uninterpreted, chars = non-continuation bytes), regex matches are in-bounds/ordered/non-overlapping and on char boundaries"],
    },
    "C17": {
        "units": ["value64", "opeval"],
        "level": "proof",
        "clause": "For every operator except ** , every operand value (2- and 4-state), every operand width 0..64 (0 = unsized all-bit literal), every context width 1..64 and "
                  "both signednesses, Op::eval_value_unary/eval_value_binary return the IEEE 1800 value (reference model units/opeval/harness.rs), stay in the <=64-bit "
                  "representation and keep the representation invariant; Value::{expand,trunc,select,concat,assign,set_value} and the ValueU64 primitives meet their bit-level "
                  "contracts (Kani/CBMC, loop-free harnesses over fully symbolic inputs = complete).",
        "assumptions": ["not covered: Op::Pow, widths above 64 bits (BigUint arms), agreement of the two representations, literal parsing establishing the representation invariant",
                        "assumed: Value.signed flags of operands agree with the type-level signedness passed as `signed` (signed ==> operands signed)",
                        "machine 64-bit multiply/divide/remainder are uninterpreted in the complete proofs (rule E10) and cross-checked only at context width <= 8 (bounded stand-ins)"],
    },
    "C18": {
        "units": ["opeval"],
        "level": "proof",
        "clause": "Interpreter engine, widths <= 64: Expression::eval (crates/simulator/src/ir/expression.rs) evaluates Unary/Binary nodes by calling exactly Op::eval_value_unary / "
                  "Op::eval_value_binary, which are proved equal to the IEEE 1800 reference for all values and widths <= 64 (same contract as C17), so run-time == compile-time there.",
        "assumptions": ["not covered: Cranelift and AOT-C lowering, widths above 64 bits (unit wide pending), that Expression::eval passes the same (width, signed) as the analyzer"],
    },
}
