"""Which units decide which property, and what the evidence says about the claim."""
PROPS = {
    "C06": {
        "units": ["codec"],
        "level": "proof",
        "clause": "ID window/rebase codec (IdWindow::encode/count, IdRebase::decode, encode_sentinel/decode_sentinel) is a bijection between a "
                  "file's ID window and the reserved range, order preserving, sentinel-safe, and refuses every id outside the window at capture time.",
        "assumptions": ["not covered: non-ID analyzer state, that every ID-bearing field is serialised through these impls (serde derive), thread-local session plumbing"],
    },
}
