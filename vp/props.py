"""Which units decide which property, and what the evidence says about the claim."""
PROPS = {
    "C06": {
        "units": ["codec", "fragcache"],
        "level": "proof",
        "clause": "ID window/rebase codec (IdWindow::encode/count, IdRebase::decode, encode_sentinel/decode_sentinel) is a bijection between a "
                  "file's ID window and the reserved range, order preserving, sentinel-safe, and refuses every id outside the window at capture time. "
                  "Interned ids (StrId): EncodeSession::encode_str keeps the dictionary invariant (every cached id points at its own text, earlier entries untouched, unknown id refused and "
                  "nothing stored), DecodeSession::decode_str is exactly the index lookup, and an encoded id decodes to an id with the same text (lemma_str_roundtrip). "
                  "ID plumbing of fragment_cache::{watermark, capture, restore} (real bodies, global tables outlined behind a ghost World of the four id counters and installed codec "
                  "sessions): capture refuses unless exactly one text id lies in the window, serialises under exactly the windows (watermark.X, X_now], stores counts == window sizes, "
                  "exporters see the same bounds; restore reserves exactly the stored counts, deserialises under rebases {reserved base, same count}, registers the source text under the id "
                  "local text id 0 decodes to, closes every session on every path; lemma_all_offsets: id start+k maps to base+k for every offset (Verus, unbounded).",
        "assumptions": ["not covered: what the table exporters/insertions do to the tables (symbol table, scopes, namespaces, ...), that every ID-bearing field is serialised through these impls (serde derive), "
                        "encode_path/decode_path (same shape as the str pair; PathBuf is opaque to Verus), DecodeSession::new (iterator adapters)",
                        "assumed: resource_table::get_str_value / insert_str behave as an interning table (str_value uninterpreted), StrId hashing obeys vstd's key model"],
    },
    "C12": {
        "units": ["tokpos"],
        "level": "proof",
        "clause": "split_comment_token: every comment split out of a merged comment run reports the line, 1-based character column, absolute byte offset and byte "
                  "length of its regex match, in match order, for any number/size of comments and any UTF-8 text (Verus, unbounded).",
        "assumptions": ["not covered: positions parol's lexer assigns to ordinary tokens (external dependency), token_range arithmetic",
                        "assumed: byte model of &str (utf8() uninterpreted, chars = non-continuation bytes), regex matches are in-bounds/ordered/non-overlapping and on char boundaries"],
    },
    "C17": {
        "units": ["value64", "opeval", "bigeval"],
        "level": "proof",
        "clause": "For every operator, every operand value (2- and 4-state), every operand width 0..64 (0 = unsized all-bit literal), every context width 1..64 and "
                  "both signednesses, Op::eval_value_unary/eval_value_binary return the IEEE 1800 value (reference model units/opeval/harness.rs), stay in the <=64-bit "
                  "representation and keep the representation invariant; Value::{expand,trunc,select,concat,assign,set_value} and the ValueU64 primitives meet their bit-level "
                  "contracts (Kani/CBMC, loop-free harnesses over fully symbolic inputs = complete). "
                  "Widths above 64 bits (unit bigeval, Verus, unbounded in the width): every big-integer arm of eval_value_binary / eval_value_unary except ** and `as`, "
                  "Value::expand on all four paths, gen_mask, to_bigint, new_bigint are proved against the same IEEE definitions restated over natural numbers, assuming "
                  "mathematical contracts for the num-bigint operations; lemma_ext_bits / lemma_agree_* tie the two restatements together (same per-bit tables, same sval/tdiv/trem).",
        "assumptions": ["** is decided in unit bigeval for both representations (pow_mod_width against the mathematical power with an assumed BigUint::modpow contract; exponents above usize::MAX only structurally) and, for negative and x/z exponents at <= 64 bits, also by Kani; not covered: Op::As, literal parsing establishing the representation invariant; "
                        "agreement of the two representations is by both being proved against one definition, there is no single cross-unit theorem",
                        "bigeval: num-bigint / num-traits operations carry assumed mathematical contracts (listed in trusted_base); match arms are extracted mechanically (rule EA) and the "
                        "<=64-bit sub-arm is proved unreachable (rule EB); overloaded operators are rewritten to trait-method calls (rule ED) because this Verus aborts on them",
                        "assumed: Value.signed flags of operands agree with the type-level signedness passed as `signed` (signed ==> operands signed)",
                        "machine 64-bit multiply/divide/remainder are uninterpreted in the complete proofs (rule E10) and cross-checked only at context width <= 8 (bounded stand-ins)"],
    },
    "C18": {
        "units": ["wide", "opeval", "bigeval", "interp"],
        "level": "proof",
        "clause": "Multi-word run-time helpers (crates/simulator/src/wide_ops.rs, used by the JIT and C engines above 128 bits): all 24 wide_* helpers plus nw, sext_word, "
                  "pack/unpack_nb_width compute the mathematically correct multi-word result (add/sub/negate/mul modulo 2^(64n), signed/unsigned compare, shifts by any amount, "
                  "sign/zero extension, masks, reductions) for every word count and every value, with every memory access in bounds (Verus, unbounded). "
                  "Interpreter engine, widths <= 64: Expression::eval (crates/simulator/src/ir/expression.rs) evaluates Unary/Binary nodes by calling exactly Op::eval_value_unary / "
                  "Op::eval_value_binary, which are proved equal to the IEEE 1800 reference for all values at widths <= 64 (Kani) and above 64 (unit bigeval, Verus, assumed num-bigint contracts) - the same contracts as C17, so run-time == compile-time there. "
                  "Interpreter glue (unit interp, the real recursive Expression::eval on real enum trees with Value leaves): Unary/Binary nodes pass exactly the children's values and the node's "
                  "(width, signed) to the operator functions; Ternary selects by 'some known 1', extends the selected branch by the node's both-branches-signed flag (per-bit), and agrees with "
                  "the analyzer's extracted compile-time Ternary arm; Concatenation layout/width/signedness (bounded in the number of elements, labelled).",
        "assumptions": ["not covered: the Cranelift and AOT-C code that calls the helpers and all <=128-bit machine-code lowering, Op::Pow, "
                        "that Expression::eval passes the same (width, signed) as the analyzer",
                        "wide_ops: raw pointers re-typed to Vec<u64> (rule E5): pointer validity, alignment and aliasing of dst with an operand are not modelled"],
    },
    "C28": {
        "units": ["pretty"],
        "level": "proof",
        "clause": "crates/pretty/src/render.rs, every function that touches the render state: the position invariant (current_line == 1 + #newlines written, col == chars "
                  "after the last newline) and the anchor invariant (every recorded anchor's (dst_line, dst_column) is the 1-based line/character column of the output "
                  "offset at which its text was written, its text is there, offsets non-decreasing) hold after every operation, for all Doc trees and RenderOpts; break-only "
                  "text (IfBreak / IfBreakPad) is written iff the frame's mode is Break, IfFlatPad iff Flat; the trailing-whitespace pass (strip_trailing_whitespace, real loop) loses, adds or "
                  "reorders no non-blank character (lemma_strip_content, lemma_rendered_text) (Verus, unbounded).",
        "assumptions": ["not covered: document order of fragments ACROSS frames (no ghost content log; per frame the exact output of Text/Anchored is proved and the strip pass is content-preserving), "
                        "termination of render_inner / fits_flat loops",
                        "input conditions (wf_doc/wf_opts): newline is \\n or \\r\\n, Line separators and IfBreak texts contain no newline, anchored texts are non-empty and do not end in a space, "
                        "document cost <= 2^31 (sizes stay inside the machine integers)"],
    },
    "C13": {
        "units": ["pretty"],
        "level": "proof",
        "clause": "Output side of the source map: every entry handed to SourceMap::add comes from a render anchor whose (dst_line, dst_column) is where its name text starts in the "
                  "emitted text; entries are ordered by output position; all four coordinates are >= 1 so the 1-based -> 0-based conversion in SourceMap::add cannot underflow and "
                  "passes exactly x-1 (Verus; lemma_rendered_sorted, lemma_line_col_monotone, SourceMap::add contract).",
        "assumptions": ["not covered: the source side (token positions of ordinary tokens come from parol; comments: see C12), Emitter::push_token / Emitter::emit glue "
                        "(a hand-written mirror of the emit loop, labelled as such, shows render's postcondition discharges SourceMap::add's precondition), the external sourcemap crate",
                        "not covered: 'every output line containing a mapped identifier has at least one entry' beyond 'every anchored text yields an entry on its line'"],
    },
    "C32": {
        "units": ["range"],
        "level": "proof",
        "clause": "Clause 'every range draw lies within its requested bounds for every width and signedness': random_table::{mask, sign_extend, get, get_range} and testbench::range_bound - for every min/max: u64, "
                  "every width <= 64, both signednesses and every value rand may return, the range handed to rand is non-empty and the returned Value has the handle's width and "
                  "signedness, no x/z, fits the width, and read at (width, signed) lies between the two bounds in either order (Kani, loop-free, complete). "
                  "Seed derivation derive_seed(base, name) equals FNV-1a-64 over base||name and reads nothing else (bounded in the name length; free-identifier scan of the extracted body). "
                  "Generator table (job range_table, Verus, real bodies with the thread-local turned into a parameter): reset(b) empties the table for every prior state, seed_handle / "
                  "get_seed_handle / with_rng touch exactly one slot and create it lazily from seed_of(base, handle); lemmas: history independence after reset, handle isolation, explicit seed; "
                  "client: a test starts from gen_of(seed_of(b, k)) exactly as if the previous test on the same worker had never run.",
        "assumptions": ["not covered: the worker pool, dispatch order and output capture of cmd_test.rs (schedules are outside this family), that run_testbench calls reset before every test",
                        "assumed: rand's random_range(lo..=hi) returns lo <= r <= hi and is deterministic for a seeded Pcg64; handle widths <= 64 (analyzer rejects wider $tb::random types)",
                        "the call-site glue range_bound (simulator/src/testbench.rs) is under contract: for well-formed <=64-bit argument values whose integer value is representable in the "
                        "handle's type, the draw lies between the argument values; that exec_one calls it for both bounds is read off the code, not proved"],
    },
    "C36": {
        "units": ["svlogic"],
        "level": "proof",
        "clause": "DPI svLogicVecVal <-> Value for everything that lands in the <=64-bit representation (1 and 2 words / widths 1..64): decode and encode follow IEEE 1800 Annex H "
                  "(0=00, 1=10, Z=01, X=11 as aval/bval) bit by bit, padding bits are 0/0, and both round trips are the identity; Value::to_vcd_value / to_fst_bits / VcdValueIter "
                  "report exactly the value's bits (V0/V1/X/Z resp. '0' '1' 'x' 'z', MSB first, width items) (Kani; per-bit harnesses with symbolic indices, loops bounded by the "
                  "representation so unwinding assertions make them complete; to_fst_bits proved modularly against to_vcd_value's proved contract).",
        "assumptions": ["not covered: widths above 64 bits (BigUint branches timed out), what Simulator::dump_variables chooses to dump and when, the VCD/FST writers",
                        "width-0 values (unsized all-bit literals) encode to an empty array and are outside the contract"],
    },
    "C16": {
        "units": ["cdc"],
        "level": "proof",
        "clause": "Decision kernel: ClockDomain::compatible(a,b) <=> a or b is domain-less or a and b are the same domain (symmetric, reflexive; different named domains and named-vs-default "
                  "are incompatible); Explicit(i) and Inferred(i) are indistinguishable to compatible, to merge(..).domain_id() and to check_clock_domain; merge: None is the identity, a "
                  "named domain is never lost, the result is one of the operands, later crossings stay visible; check_clock_domain (real body text) records exactly one "
                  "mismatch_clock_domain error <=> the domains are incompatible and the statement is not inside unsafe(cdc), asking the unsafe table once about the statement token; "
                  "TokenRange::include is exactly 'position inside the closed range [beg, end] of that file' (so an unsafe(cdc) block covers its own tokens and nothing else); "
                  "check_assign_clock_domain infers a domain only for an Implicit destination (Explicit/Inferred/None destinations are never rewritten), then logs exactly the mismatches of "
                  "destination vs rhs, vs the always_ff clock and vs each enclosing condition (Kani, loop-free, symbolic ids = complete; RangeTable lookup and the condition list bounded, labelled).",
        "assumptions": ["not covered: that every assignment/connection site calls the checks (call-site completeness), domain propagation through conv/expression.rs, the thread-local wrapper of unsafe_table",
                        "harness stand-ins (record calls only) for Context, Comptime, Token, TokenRange, unsafe_table::contains, AnalyzerError::mismatch_clock_domain, ClockDomain::to_string"],
    },
    "C21": {
        "units": ["npn", "aigmap"],
        "level": "proof",
        "clause": "npn4.rs: ALL_PERMS is exactly the 24 permutations; perm_tt / flip_inputs / NpnTransform::apply are the documented action on Boolean functions of 4 variables for every "
                  "truth table (Kani, full u16 domain); npn_canonical(tt) returns a transform t with t.apply(tt) == canonical and canonical <= T.apply(tt) for all 768 transforms T "
                  "(least truth table of the NPN class; Verus loop invariant), the perm_table initialiser meets its documented contract; transform_pattern(pat,t).tt() == t.apply(pat.tt()) "
                  "for every transform and every well-formed pattern with 0..=3 gates (Kani), which with npn_canonical's contract gives 'every library pattern computes its recorded truth table'. "
                  "Local kernels of rewriting and technology mapping (unit aigmap, Kani): AigEdge algebra, mk_and/mk_or/mk_xor/mk_mux compute their functions and never change older nodes; "
                  "techmap.rs match_mux_pair / match_xor_pair are sound and complete, pick_xor_polarity / pick_or_polarity / try_match emit a cell whose function (negated iff output_is_negated) "
                  "is the root AND's function and absorb only private inner nodes; rewrite.rs instantiate_pattern computes the pattern's function, merge_cuts is the sorted union, "
                  "try_library_rewrite returns an edge computing the cut function for every truth table, transform and library pattern (with unit npn's postconditions as the assumed "
                  "library contract); compute_cut_tt bounded (2 ANDs).",
        "assumptions": ["not covered: the driver loops that compose the local kernels (techmap.rs aig_to_cells_techmap role pass / resolve / sink wiring, rewrite.rs rewrite / compact / enumerate_cuts, convert.rs) - "
                        "the clause 'leaves every output function unchanged' is decided per local step, the induction over the whole graph is by inspection",
                        "aigmap stand-ins: association-list HashMap, array-backed Vec, mk_and through its proved contract in the try_library_rewrite harnesses, cell functions written from the CellKind doc comments and lower_cell",
                        "assumed for the library lemma: HashMap behaves as a finite map, the nested enumerate builds only well-formed patterns (by inspection), best is written only at the "
                        "anchored insertion site; OnceLock::get_or_init returns the closure's value; perm_tt/flip_inputs are external_body in the Verus job (their meaning is proved by the Kani job)"],
    },
    "C29": {
        "units": ["store"],
        "level": "proof",
        "clause": "crates/cache/src/lib.rs over a ghost disk: every public Store operation against the abstract view (saved manifest, next entries, on_disk_current): keep copies exactly the saved entry "
                  "of src, invalidate clears only that entry's fragment, set_dependents/set_tests/set_diagnostics change only their field of only that entry, put records exactly the new entry and "
                  "blob (frame over all other keys); save: an identical re-scan touches nothing (no serializer or write call), otherwise saved == old next, the disk manifest parses to it, the flag "
                  "is true only after a successful write; gc removes only blobs the saved manifest does not reference; open: entries iff schema and key match, else empty; blob header codec: "
                  "decode(d) == Some(p) <=> d == MAGIC ++ le32(SCHEMA) ++ p for every length (Verus); lemma_reopen_same_key / lemma_reopen_other_key and a client scenario "
                  "open-put-save-reopen-load. Kani cross-checks of the header codec on the real std slice functions are bounded in the payload length (labelled).",
        "assumptions": ["assumed: toml_parse(toml::to_string(m)) == Some(m); BLAKE3 collision-free / blob_rel injective; fs wrappers (read may fail, delivered data is the file's data; atomic write: Ok => exact bytes, Err => unchanged)",
                        "gc's reference-set iterator chain is outlined (assumed contract); the native differential run exercises the real chain",
                        "not covered: the lock file, crash points, concurrent processes (C05/C30)"],
    },
    "C35": {
        "units": ["hostcopy"],
        "level": "proof",
        "clause": "Clause 'values cross the host/component boundary with every bit and every X/Z mask bit intact at every width': HostContext::{set_input, set_input_masked, svc_write_output, "
                  "svc_port_words_len, add_port_role} copy every payload word and every mask word of exactly the addressed port (stale mask cleared when none is given, dirty set, all other "
                  "ports and fields untouched, out-of-range or non-output index ignored), words_for(w) == max(1, ceil(w/64)), mask_top_word clears exactly the bits >= width; the call-site "
                  "glue RuntimeComponent::stage_inputs leaves, for every expression input, port.words == the value's payload words and port.mask_xz == the value's X/Z mask words whichever "
                  "setter it chooses - for every width and word count (Verus, unbounded); component Value::{as_i64, unknown_at, from_u64, from_bits, to_port_words, to_port_mask_xz} against bit-level contracts (Kani; resizing "
                  "constructors at fixed widths, labelled bounded).",
        "assumptions": ["not covered: hook timing relative to flip-flop commit, the WebAssembly transport (no wasm32 target), HostValue::as_vrl and the raw-pointer FFI side, call_method",
                        "observation (not a contract): parameters/method arguments are two-state by design; Value::as_i64 ignores mask_xz"],
    },
    "C31": {
        "units": ["lockres"],
        "level": "proof",
        "clause": "Selection kernel of the first sentence, per (url, project, requirement): Lockfile::resolve_version_from_lockfile returns exactly the first lock of that url that is a repository "
                  "lock of that project whose version satisfies the requirement (None iff there is none; lock table unchanged); resolve_version returns that locked release when it exists and "
                  "force_update is off without touching the network side, otherwise what resolve_version_from_latest returns; resolve_version_from_latest (real control flow, fs/git calls "
                  "outlined over a ghost world): on Ok the release is one of the published releases, satisfies the requirement and is a highest satisfying one; Err(VersionNotFound) iff none "
                  "satisfies; git runs only under the resolve directory lock. The fresh-name kernel of gen_locks hands out a name not in the shared table (least free suffix). (Verus, unbounded.)",
        "assumptions": ["not covered: the iteration over all dependency declarations (resolve_dependency / gen_locks BFS, uuid dedup), the save/reload clause, the update-reports-no-modification clause, "
                        "that Lock.name is the name handed out (by inspection), that the Veryl.pub read is the dependency's at the fetched head",
                        "assumed: semver::Version order is total (ver_le) and VersionReq::matches is a predicate (sat); sort_by returns a permutation ordered by the comparator; HashMap/HashSet behave as finite maps/sets",
                        "with force_update the latest release is taken (read off cmd_update.rs); C31's own sentence does not mention force_update, so that part of the contract is stricter than the statement"],
    },
}
