"""Run Verus on one generated file; parse --output-json/--time and rustc-style diagnostics."""
import json
import os
import re
import subprocess
import time

OBLIGATION_MSGS = (
    "postcondition not satisfied",
    "precondition not satisfied",
    "invariant not satisfied",
    "assertion failed",
    "possible arithmetic underflow/overflow",
    "possible division by zero",
    "possible bit shift underflow/overflow",
    "decreases not satisfied",
    "could not prove termination",
    "assertion failure",
    "assert_by_compute",
    "bit_vector",
    "unable to prove",
    "failed to prove",
    "constructed value may fail to meet its declared type invariant",
    "may fail to meet",
    "cannot show invariant holds",
    "loop invariant",
    "fails to satisfy",
)
RESOURCE_MSGS = ("rlimit", "resource limit", "timed out", "timeout", "smt solver", "z3 ")


class VerusFile:
    """Concatenates chunks and remembers which generated lines belong to which label."""

    def __init__(self, header=None):
        self.parts = []
        self.map = []  # (first_line, last_line, label, meta)
        self.line = 1
        self.raw(header if header is not None else
                 "use vstd::prelude::*;\nverus! {\nglobal size_of usize == 8;\n", "prelude")

    def raw(self, text, label, meta=None):
        if not text.endswith("\n"):
            text += "\n"
        n = text.count("\n")
        self.map.append((self.line, self.line + n - 1, label, meta))
        self.parts.append(text)
        self.line += n

    def item(self, it, label=None):
        self.raw(it.render() + "\n", label or it.name, it.describe())

    def finish(self, footer="} // verus!\nfn main() {}\n"):
        self.raw(footer, "footer")
        return "".join(self.parts)

    def label_at(self, line):
        for a, b, label, meta in self.map:
            if a <= line <= b:
                return label
        return "?"


def classify(msg):
    m = msg.lower()
    for k in RESOURCE_MSGS:
        if k in m:
            return "resource"
    for k in OBLIGATION_MSGS:
        if k in m:
            return "obligation"
    return "tool"


_err_re = re.compile(r"^error(?:\[E\d+\])?: (.*)$")
_loc_re = re.compile(r"^\s*--> ([^:]+):(\d+):(\d+)")


def parse_diagnostics(stderr):
    errs = []
    cur = None
    for line in stderr.splitlines():
        m = _err_re.match(line)
        if m:
            msg = m.group(1)
            if msg.startswith("aborting due to") or msg.startswith("could not compile"):
                cur = None
                continue
            cur = {"msg": msg, "line": None, "col": None, "lines": [line]}
            errs.append(cur)
            continue
        if cur is not None:
            cur["lines"].append(line)
            m = _loc_re.match(line)
            if m and cur["line"] is None:
                cur["line"], cur["col"] = int(m.group(2)), int(m.group(3))
    for e in errs:
        e["class"] = classify(e["msg"])
        e["text"] = "\n".join(e["lines"][:40])
        del e["lines"]
    return errs


def run_verus(path, rlimit=30, extra=(), timeout=1800, threads=None):
    cmd = ["verus", os.path.basename(path), "--output-json", "--time", "--multiple-errors", "8",
           "--rlimit", str(rlimit), "--no-report-long-running", "--triggers-mode", "silent"]
    if threads:
        cmd += ["--num-threads", str(threads)]
    cmd += list(extra)
    t0 = time.time()
    try:
        p = subprocess.run(cmd, cwd=os.path.dirname(path), capture_output=True, text=True, timeout=timeout)
        out, err, rc = p.stdout, p.stderr, p.returncode
    except subprocess.TimeoutExpired as e:
        out = e.stdout.decode() if e.stdout else ""
        err = (e.stderr.decode() if e.stderr else "") + "\nerror: verus timed out after %ds" % timeout
        rc = -9
    wall = time.time() - t0
    res = {"cmd": " ".join(cmd), "rc": rc, "wall_s": wall, "fns": {}, "errors": parse_diagnostics(err),
           "stderr": err, "verified": 0, "n_errors": 0, "smt_ms": 0, "json_ok": False}
    try:
        j = json.loads(out)
        res["json_ok"] = True
        vr = j.get("verification-results", {})
        res["verified"] = vr.get("verified", 0)
        res["n_errors"] = vr.get("errors", 0)
        res["success"] = bool(vr.get("success"))
        t = j.get("times-ms", {})
        res["smt_ms"] = t.get("smt", {}).get("smt-run", 0)
        res["total_ms"] = t.get("total", 0)
        for mod in t.get("smt", {}).get("smt-run-module-times", []):
            for f in mod.get("function-breakdown", []):
                name = f["function"].split("::", 1)[1] if "::" in f["function"] else f["function"]
                res["fns"][name] = {"success": bool(f.get("success")), "us": f.get("time-micros", 0),
                                    "rlimit": f.get("rlimit", 0), "mode": f.get("mode:", f.get("mode", ""))}
        res["version"] = j.get("verus", {}).get("version", "")
    except (ValueError, KeyError):
        res["success"] = False
    return res
