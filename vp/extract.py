"""Mechanical item extraction from /repo's current working tree + splice points.

Everything is cut byte-for-byte; every deviation from the source text goes through
Item.replace / Item.insert_* / Item.strip_derive and is recorded so the unit's
extract.diff shows exactly what the verifier saw versus what the repository holds.
"""
import difflib
import hashlib
import os
import re

from .rustlex import lex, match_close, LexError, OPEN


class ExtractError(Exception):
    """Lost anchor / item not found / rule not applicable -> exit 2 (undecided)."""


QUALS = {"pub", "const", "unsafe", "extern", "async", "default", "crate", "super", "in", "self"}
ITEM_KW = {"fn", "struct", "enum", "const", "static", "type", "impl", "mod", "trait", "use", "union", "macro_rules"}


def _norm(s):
    return re.sub(r"\s+", " ", s).strip()


class Src:
    def __init__(self, repo, rel):
        self.repo, self.rel = repo, rel
        p = os.path.join(repo, rel)
        if not os.path.isfile(p):
            raise ExtractError("source file missing: %s" % rel)
        self.text = open(p, encoding="utf-8").read()
        try:
            self.toks = lex(self.text)
        except LexError as e:
            raise ExtractError("cannot lex %s: %s" % (rel, e))

    # ---- scope scanning -------------------------------------------------
    def _scan(self, lo, hi):
        """yield (kw_index, kw) for item keywords at bracket depth 0 within toks[lo:hi]"""
        toks = self.toks
        i = lo
        while i < hi:
            t = toks[i]
            if t.kind == "punct" and t.text in OPEN:
                i = match_close(toks, i) + 1
                continue
            if t.kind == "ident" and t.text in ITEM_KW:
                # `const fn` / `unsafe fn` / `extern "C" fn`: the fn keyword decides
                if t.text == "const":
                    # const item unless followed (skipping quals) by fn
                    j = i + 1
                    while j < hi and (toks[j].kind == "comment" or (toks[j].kind == "ident" and toks[j].text in ("unsafe", "extern", "async")) or toks[j].kind == "str"):
                        j += 1
                    if j < hi and toks[j].kind == "ident" and toks[j].text == "fn":
                        i = j
                        continue
                yield i, t.text
                # skip to end of this item
                i = self._item_end(i, hi) + 1
                continue
            i += 1

    def _item_end(self, kw, hi):
        """index of the last token of the item whose keyword is toks[kw]"""
        toks = self.toks
        text = toks[kw].text
        j = kw + 1
        if text == "macro_rules":
            while j < hi and not (toks[j].kind == "punct" and toks[j].text in OPEN):
                j += 1
            e = match_close(toks, j)
            if e + 1 < hi and toks[e + 1].text == ";":
                e += 1
            return e
        while j < hi:
            t = toks[j]
            if t.kind == "punct":
                if t.text == ";":
                    return j
                if t.text == "{":
                    e = match_close(toks, j)
                    if text in ("fn", "struct", "enum", "impl", "mod", "trait", "union"):
                        return e
                    j = e + 1
                    continue
                if t.text in OPEN:
                    j = match_close(toks, j) + 1
                    continue
            j += 1
        raise ExtractError("unterminated item at %s:%d" % (self.rel, toks[kw].start))

    def _item_start(self, kw, lo):
        """walk back over qualifiers, attributes and doc/line comments"""
        toks = self.toks
        i = kw
        while i - 1 >= lo:
            p = toks[i - 1]
            if p.kind == "ident" and p.text in QUALS:
                i -= 1
            elif p.kind == "str" and i - 2 >= lo and toks[i - 2].text == "extern":
                i -= 1
            elif p.kind == "punct" and p.text == ")":
                # pub(crate)
                k = i - 1
                while k >= lo and toks[k].text != "(":
                    k -= 1
                if k - 1 >= lo and toks[k - 1].text == "pub":
                    i = k
                else:
                    break
            elif p.kind == "punct" and p.text == "]":
                k = i - 1
                depth = 0
                while k >= lo:
                    if toks[k].text == "]":
                        depth += 1
                    elif toks[k].text == "[":
                        depth -= 1
                        if depth == 0:
                            break
                    k -= 1
                if k - 1 >= lo and toks[k - 1].text == "#":
                    i = k - 1
                else:
                    break
            elif p.kind == "comment" and p.text.startswith("//") and not p.text.startswith("//!"):
                # only comments on their own line directly above
                ls = self.text.rfind("\n", 0, p.start) + 1
                if self.text[ls:p.start].strip() == "":
                    i -= 1
                else:
                    break
            else:
                break
        return i

    def _impl_header(self, kw):
        toks = self.toks
        j = kw + 1
        while toks[j].text != "{":
            if toks[j].kind == "punct" and toks[j].text in ("(", "["):
                j = match_close(toks, j)
            j += 1
        hdr = self.text[toks[kw].end:toks[j].start]
        hdr = re.sub(r"//[^\n]*", "", hdr)
        hdr = _norm(hdr)
        # drop leading generics `<...>`
        if hdr.startswith("<"):
            depth = 0
            for k, ch in enumerate(hdr):
                if ch == "<":
                    depth += 1
                elif ch == ">":
                    depth -= 1
                    if depth == 0:
                        hdr = hdr[k + 1:].strip()
                        break
        hdr = re.sub(r"\s+where\s.*$", "", hdr)
        return hdr, j

    def impl_bodies(self, header):
        """(lo, hi) token ranges of the bodies of `impl <header> { .. }` blocks"""
        out = []
        want = _norm(header)
        for kw, text in self._scan(0, len(self.toks)):
            if text != "impl":
                continue
            hdr, ob = self._impl_header(kw)
            plain = re.sub(r"<.*>$", "", hdr) if " for " not in hdr else hdr
            if hdr == want or plain == want:
                out.append((ob + 1, match_close(self.toks, ob)))
        return out

    def item(self, kind, name=None, impl=None):
        """Locate an item. kind: fn/struct/enum/const/static/type/impl/use/macro_rules.
        impl: header of the impl block(s) to search (e.g. "ValueU64", "From<&Value> for Vec<SvLogicVecVal>")."""
        toks = self.toks
        if impl is not None:
            scopes = self.impl_bodies(impl)
            if not scopes:
                raise ExtractError("impl %r not found in %s" % (impl, self.rel))
        else:
            scopes = [(0, len(toks))]
        found = []
        for lo, hi in scopes:
            for kw, text in self._scan(lo, hi):
                if text != kind:
                    continue
                if kind == "impl":
                    hdr, _ = self._impl_header(kw)
                    if hdr != _norm(name):
                        continue
                elif kind == "macro_rules":
                    if toks[kw + 2].text != name:
                        continue
                else:
                    j = kw + 1
                    while toks[j].kind == "comment":
                        j += 1
                    if kind in ("const", "static") and toks[j].text == "mut":
                        j += 1
                    if toks[j].text != name:
                        continue
                s = self._item_start(kw, lo)
                e = self._item_end(kw, hi)
                found.append((s, kw, e))
        where = ("%s::%s" % (impl, name)) if impl else str(name)
        if not found:
            raise ExtractError("%s %s not found in %s" % (kind, where, self.rel))
        if len(found) > 1:
            raise ExtractError("%s %s ambiguous (%d) in %s" % (kind, where, len(found), self.rel))
        s, kw, e = found[0]
        a, b = toks[s].start, toks[e].end
        return Item(self, kind, where, self.text[a:b], toks[kw].start - a, line=self.text.count("\n", 0, a) + 1)

    def fns_in_impl(self, impl):
        names = []
        for lo, hi in self.impl_bodies(impl):
            for kw, text in self._scan(lo, hi):
                if text == "fn":
                    names.append(self.toks[kw + 1].text)
        return names

    def top_level(self):
        """[(kind, name)] of top-level items (for 'whole file' units)"""
        out = []
        for kw, text in self._scan(0, len(self.toks)):
            if text == "impl":
                out.append((text, self._impl_header(kw)[0]))
            elif text == "macro_rules":
                out.append((text, self.toks[kw + 2].text))
            elif text == "use":
                out.append((text, None))
            else:
                j = kw + 1
                if self.toks[j].text == "mut":
                    j += 1
                out.append((text, self.toks[j].text))
        return out


class Item:
    """One extracted item; edits are positional inserts / exact replacements on its text."""

    def __init__(self, src, kind, name, text, kw_off, line):
        self.src, self.kind, self.name = src, kind, name
        self.orig = text
        self.kw_off = kw_off
        self.line = line
        self.sha256 = hashlib.sha256(text.encode()).hexdigest()
        self._ins = []       # (offset, order, text)
        self._repl = []      # (start, end, new)
        self.rules = []      # human-readable log
        self._toks = lex(text)
        self._analyse()

    # ---- structure --------------------------------------------------------
    def _analyse(self):
        toks = self._toks
        self.body_open = self.body_close = None
        self.arrow = None
        self.where_kw = None
        self.loops = []
        if self.kind != "fn":
            return
        k = next(i for i, t in enumerate(toks) if t.start == self.kw_off)
        j = k
        while j < len(toks):
            t = toks[j]
            if t.kind == "punct":
                if t.text in ("(", "["):
                    j = match_close(toks, j) + 1
                    continue
                if t.text == "{":
                    self.body_open = j
                    self.body_close = match_close(toks, j)
                    break
                if t.text == ";":
                    break
                if t.text == "-" and toks[j + 1].text == ">" and toks[j + 1].start == t.end:
                    if self.arrow is None:
                        self.arrow = j
            if t.kind == "ident" and t.text == "where":
                self.where_kw = j
            j += 1
        if self.body_open is None:
            return
        j = self.body_open + 1
        while j < self.body_close:
            t = toks[j]
            if t.kind == "ident" and t.text in ("for", "while", "loop"):
                # HRTB `for<'a>` is not a loop
                if t.text == "for" and toks[j + 1].text == "<":
                    j += 1
                    continue
                m = j + 1
                while True:
                    u = toks[m]
                    if u.kind == "punct" and u.text in ("(", "["):
                        m = match_close(toks, m) + 1
                        continue
                    if u.kind == "punct" and u.text == "{":
                        break
                    m += 1
                self.loops.append((j, m, match_close(toks, m)))
            j += 1

    # ---- edits ------------------------------------------------------------
    def _insert(self, off, text, why):
        self._ins.append((off, len(self._ins), text))
        self.rules.append(why)

    def name_return(self, rname="r"):
        if self.arrow is None:
            raise ExtractError("fn %s has no return type to name" % self.name)
        toks = self._toks
        a = toks[self.arrow + 1].end
        endtok = self.where_kw if self.where_kw is not None else self.body_open
        b = toks[endtok].start
        ty = self.orig[a:b]
        self._repl.append((a, b, " (%s: %s)%s" % (rname, ty.strip(), " " if ty.endswith(" ") else "\n")))
        self.rules.append("S-ret: return value named `%s`" % rname)

    def spec(self, text):
        """insert requires/ensures/decreases between signature and body"""
        self._insert(self._toks[self.body_open].start, "\n" + text.rstrip() + "\n", "S-spec: contract spliced before body")

    def at_start(self, text):
        self._insert(self._toks[self.body_open].end, "\n" + text.rstrip() + "\n", "S-ghost: ghost code at function start")

    def at_end(self, text):
        self._insert(self._toks[self.body_close].start, "\n" + text.rstrip() + "\n", "S-ghost: ghost code at function end")

    def _loop(self, k):
        if k >= len(self.loops):
            raise ExtractError("fn %s: loop #%d not found (has %d)" % (self.name, k, len(self.loops)))
        return self.loops[k]

    def loop_spec(self, k, text):
        kw, ob, cb = self._loop(k)
        self._insert(self._toks[ob].start, "\n" + text.rstrip() + "\n", "S-inv: invariant spliced on loop #%d" % k)

    def loop_body_start(self, k, text):
        kw, ob, cb = self._loop(k)
        self._insert(self._toks[ob].end, "\n" + text.rstrip() + "\n", "S-ghost: ghost code at start of loop #%d body" % k)

    def loop_body_end(self, k, text):
        kw, ob, cb = self._loop(k)
        self._insert(self._toks[cb].start, "\n" + text.rstrip() + "\n", "S-ghost: ghost code at end of loop #%d body" % k)

    def before_loop(self, k, text):
        kw, ob, cb = self._loop(k)
        off = self._toks[kw].start
        # keep a loop label in front of the loop
        if kw >= 2 and self._toks[kw - 1].text == ":" and self._toks[kw - 2].kind == "lifetime":
            off = self._toks[kw - 2].start
        self._insert(off, text.rstrip() + "\n", "S-ghost: ghost code before loop #%d" % k)

    def after_loop(self, k, text):
        kw, ob, cb = self._loop(k)
        self._insert(self._toks[cb].end, "\n" + text.rstrip() + "\n", "S-ghost: ghost code after loop #%d" % k)

    def loop_kw(self, k):
        return self._toks[self._loop(k)[0]].text

    def prepend(self, text):
        self._insert(0, text.rstrip() + "\n", "S-attr: attribute(s) prepended")

    def replace(self, old, new, count=1, rule="R"):
        """exact replacement inside the item; the number of occurrences must equal count"""
        n = self.orig.count(old)
        if n != count:
            raise ExtractError("%s: rule %s expects %d x %r, found %d" % (self.name, rule, count, old, n))
        pos = 0
        for _ in range(n):
            i = self.orig.index(old, pos)
            self._repl.append((i, i + len(old), new))
            pos = i + len(old)
        self.rules.append("%s: %r -> %r (x%d)" % (rule, old, new, n))

    def sub(self, pattern, new, count=None, rule="R", flags=0):
        ms = list(re.finditer(pattern, self.orig, flags))
        if (count is not None and len(ms) != count) or (count is None and not ms):
            raise ExtractError("%s: rule %s expects %s match(es) of /%s/, found %d" % (self.name, rule, count, pattern, len(ms)))
        for m in ms:
            self._repl.append((m.start(), m.end(), m.expand(new)))
        self.rules.append("%s: /%s/ -> %r (x%d)" % (rule, pattern, new, len(ms)))

    def sub_opt(self, pattern, new, rule="R", flags=0):
        if re.search(pattern, self.orig, flags):
            self.sub(pattern, new, None, rule, flags)

    def strip_derive(self, *names):
        def fix(m):
            ents = [e.strip() for e in m.group(1).split(",") if e.strip()]
            ents = [e for e in ents if e not in names]
            return "#[derive(%s)]" % ", ".join(ents) if ents else ""
        for m in re.finditer(r"#\[derive\(([^)]*)\)\]", self.orig):
            new = fix(m)
            if new != m.group(0):
                self._repl.append((m.start(), m.end(), new))
                self.rules.append("E3: derive entries %s removed" % ",".join(names))

    def drop_attr(self, pattern, rule="E3"):
        for m in re.finditer(r"[ \t]*#\[" + pattern + r"[^\]]*\]\n?", self.orig):
            self._repl.append((m.start(), m.end(), ""))
            self.rules.append("%s: attribute /%s/ dropped" % (rule, pattern))

    def body_text(self):
        return self.orig[self._toks[self.body_open].start:self._toks[self.body_close].end]

    def free_idents(self):
        """identifiers used in the body (for 'reads nothing but its arguments' scans)"""
        return sorted({t.text for t in self._toks[self.body_open:self.body_close] if t.kind == "ident"})

    def render(self):
        edits = [(s, e, 1, 0, n) for (s, e, n) in self._repl] + [(o, o, 0, k, t) for (o, k, t) in self._ins]
        # check replacements do not overlap
        spans = sorted((s, e) for (s, e, _) in self._repl)
        for (a, b), (c, d) in zip(spans, spans[1:]):
            if c < b:
                raise ExtractError("%s: overlapping rewrite rules" % self.name)
        out = self.orig
        # apply back to front; at equal offset inserts keep their registration order
        for s, e, isrepl, k, t in sorted(edits, key=lambda x: (x[0], x[2], x[3]), reverse=True):
            out = out[:s] + t + out[e:]
        return out

    def diff(self):
        a = self.orig.splitlines(keepends=True)
        b = self.render().splitlines(keepends=True)
        return "".join(difflib.unified_diff(a, b, "repo:%s:%s" % (self.src.rel, self.name), "verified:%s" % self.name))

    def describe(self):
        return {"file": self.src.rel, "item": "%s %s" % (self.kind, self.name), "line": self.line, "sha256": self.sha256}


def _replace_macro(self, name, new, rule="O4", min_count=1):
    """replace every `name!( ... )` invocation (balanced) by `new`"""
    toks = self._toks
    n = 0
    for i, t in enumerate(toks):
        if t.kind == "ident" and t.text == name and i + 2 < len(toks) and toks[i + 1].text == "!" and toks[i + 2].text in OPEN:
            e = match_close(toks, i + 2)
            self._repl.append((t.start, toks[e].end, new))
            n += 1
    if n < min_count:
        raise ExtractError("%s: rule %s expects >=%d `%s!` invocation(s), found %d" % (self.name, rule, min_count, name, n))
    if n:
        self.rules.append("%s: %d x `%s!(..)` -> `%s`" % (rule, n, name, new))
    return n


def _drop_stmt_macro(self, name, rule="E6"):
    """drop `name!(..);` statements (debug_assert! etc.)"""
    toks = self._toks
    n = 0
    for i, t in enumerate(toks):
        if t.kind == "ident" and t.text == name and i + 2 < len(toks) and toks[i + 1].text == "!" and toks[i + 2].text in OPEN:
            e = match_close(toks, i + 2)
            end = toks[e].end
            if e + 1 < len(toks) and toks[e + 1].text == ";":
                end = toks[e + 1].end
            self._repl.append((t.start, end, ""))
            n += 1
    if n:
        self.rules.append("%s: %d x `%s!(..);` dropped" % (rule, n, name))
    return n


Item.replace_macro = _replace_macro
Item.drop_stmt_macro = _drop_stmt_macro


def _before_tail(self, text):
    """insert ghost code just before the function's tail expression (after the last `;` at body depth 1)"""
    toks = self._toks
    depth = 0
    last_semi = self.body_open
    j = self.body_open + 1
    blocks_after = 0
    while j < self.body_close:
        t = toks[j]
        if t.kind == "punct" and t.text in OPEN:
            e = match_close(toks, j)
            if t.text == "{":
                blocks_after += 1
            j = e + 1
            continue
        if t.kind == "punct" and t.text == ";":
            last_semi = j
            blocks_after = 0
        j += 1
    # a block statement followed by a separate tail expression cannot be told apart from a tail block: refuse
    tail = [t for t in toks[last_semi + 1:self.body_close] if t.kind != "comment"]
    if not tail:
        raise ExtractError("fn %s has no tail expression" % self.name)
    if blocks_after > 1 or (blocks_after == 1 and tail[-1].text != "}" and tail[0].text in ("if", "for", "while", "loop", "match")):
        raise ExtractError("fn %s: cannot locate the tail expression unambiguously" % self.name)
    self._insert(toks[last_semi].end, "\n" + text.rstrip() + "\n", "S-ghost: ghost code before the tail expression")


Item.before_tail = _before_tail
