"""Regenerates MANIFEST.json from vp/props.py (claimed) and NOT_APPLICABLE below. Run: python3 -m vp.manifest"""
import json
import os

from .props import PROPS

ROOT = os.path.dirname(os.path.dirname(os.path.abspath(__file__)))

NOT_APPLICABLE = {
    "C01": "relation between two programs' executions, one under an external SystemVerilog simulator; no verifier here has SV semantics and neither the 7 kLoC emitter nor the simulator can be ingested (Kani cannot build parser-dependent crates, Verus is single-file)",
    "C02": "the JIT and C engines emit machine code / C at run time; equivalence of generated code is outside Verus/Kani (the multi-word helpers those engines call are proved under C18)",
    "C03": "relational (optimised vs unoptimised trace) over passes that rewrite the whole simulator IR behind process-global toggles; no per-function contract implies trace equality without a verified semantics of that IR",
    "C04": "quantifies over edit/build histories of the whole CLI with filesystem state",
    "C05": "crash points and fault sequences on a real filesystem; outside contract-based verification of single functions",
    "C07": "histories of LSP notifications over thread-local global tables",
    "C08": "relational over parse-then-format of arbitrary text; the formatter is a 5 kLoC walker over a parol-generated AST that neither tool ingests",
    "C09": "same as C08: token-sequence preservation of the generated-AST walker is not expressible as a contract on an ingestible function",
    "C10": "whole-crate panic freedom/termination of the parol-generated parser; Kani cannot build the crate (backtrace dep fails under kani-compiler), stack depth is outside both tools",
    "C11": "whole-pipeline panic freedom of analyzer+emitter+formatter; Kani cannot build these crates",
    "C14": "exactness is against a bit-level reference graph of the whole design (SCC + SSA + instance summaries over analyzer IR); no closed kernel carries it",
    "C15": "same shape as C14: per-bit BigUint masks inside Context-dependent table code",
    "C19": "two-program behavioural equivalence (netlist vs RTL) over all designs",
    "C20": "area is an f64 sum and timing an f64 fixed-point iteration (floating point is outside both tools); driver uniqueness is an invariant of the whole 10-file converter",
    "C22": "two-program behavioural equivalence (translated SV vs original)",
    "C23": "token-sequence preservation is a property of a generated walker over the previous grammar's AST",
    "C24": "depends on thread-local global tables and hash-iteration order across whole runs",
    "C25": "depends on daggy toposort, the filesystem and global tables; the extractable kernels reduce to assumed contracts of those dependencies",
    "C26": "2-safety property comparing two whole command runs",
    "C27": "2-safety property comparing two whole command runs",
    "C30": "inter-process schedules on a shared filesystem (Kani has no concurrency; Verus permission types do not model files)",
    "C33": "schedules/histories over the JIT and a background C compiler thread",
    "C34": "histories over the JIT module cache",
}

TEXT = {}


def main():
    props = [json.loads(l) for l in open(os.path.join(ROOT, "properties.jsonl"))]
    checks = []
    na = []
    for p in props:
        pid = p["id"]
        if pid in PROPS:
            m = PROPS[pid]
            checks.append({
                "property_id": pid,
                "quick_cmd": "./check %s --tier quick" % pid,
                "thorough_cmd": "./check %s --tier thorough" % pid,
                "evidence_file": "/verif/evidence/%s.json" % pid,
                "replay_cmd_template": "./check --replay {path}",
                "engine": "vp",
                "level_claimed": {"category": m.get("level", "proof"), "text": m["clause"], "design_ref": m.get("design_ref", "DESIGN.md §5/§6")},
                "level_note": "; ".join(m.get("assumptions", [])) + " Trusted constructs are scanned mechanically on every run and listed in the evidence file (trusted_base). "
                              "Residual risk of this family: a harmless refactoring that loses a splice anchor gives exit 2 (undecided); one that breaks an internal proof step is reported as a violation with no-failing-input-found.",
                "technique": m.get("technique", "contract-based deductive verification (Verus/Kani) of functions extracted mechanically from /repo on every run"),
            })
        else:
            na.append({"property_id": pid, "reason": NOT_APPLICABLE.get(pid) or PROPS_PENDING.get(pid, "unit not built")})
    man = {
        "version": 1,
        "setup_cmd": "python3 -c \"import sys; sys.path.insert(0,'/verif'); import vp.core, vp.props\" && verus --version >/dev/null && cargo kani --version >/dev/null",
        "hooks": {
            "guard": "veryl_verif",
            "enable": "no hooks are needed: contracts live under /verif/units and are spliced into text extracted from /repo on every run; nothing in /repo is built with a guard",
            "baseline_off_cmd": "cd /repo && cargo nextest run --workspace --no-fail-fast --offline",
            "source_commits": [],
            "add_only": True,
        },
        "engines": [{"name": "vp", "path": "/verif/check", "serves_properties": sorted(PROPS),
                     "kind_free_text": "python3 driver: mechanical extraction of functions from /repo, contract splicing, Verus 0.2026.09.13 / Kani 0.68 (CBMC 6.11), triage, native replay"}],
        "checks": checks,
        "not_applicable": na,
        "notes": "Exit codes: 0 all obligations discharged; 1 VIOLATION (an obligation that is discharged at the baseline failed); 2 undecided (lost anchor, unsupported construct, resource limit) - never an alarm.",
    }
    json.dump(man, open(os.path.join(ROOT, "MANIFEST.json"), "w"), indent=1)
    print("MANIFEST.json: %d checks, %d not_applicable" % (len(checks), len(na)))


PROPS_PENDING = {
}

if __name__ == "__main__":
    main()
